#!/usr/bin/env python3
"""confirm_mutant.py <mutant dir> <seeded id> <property>
Confirms, in a scratch worktree of /repo (removed afterwards), that the change (a) applies and compiles, (b) passes the
unedited test suite, (c) makes the demonstration fail while the clean tree passes it.  On success stores
/verif/seeded/<id>/{patch.diff, demo.cpp, README.md, meta.json}."""
import json, os, re, shutil, subprocess, sys, time

src, sid, prop = sys.argv[1], sys.argv[2], sys.argv[3]
wt = "/tmp/cm_%s" % sid
log = {}
def sh(cmd, **kw):
    return subprocess.run(cmd, shell=True, capture_output=True, text=True, **kw)

sh("git -C /repo worktree remove --force %s" % wt)
r = sh("git -C /repo worktree add -q %s HEAD" % wt)
try:
    demo = open(os.path.join(src, "demo.cpp")).read()
    # compile command(s) from the demo header: replace the agent's include path by the scratch worktree
    cmds = re.findall(r"g\+\+ [^\n]*?-I\S+[^\n]*?demo\.cpp", demo)
    flags = []
    for c in cmds:
        f = [t for t in c.split() if t.startswith("-m") or t.startswith("-D")]
        if f not in flags:
            flags.append(f)
    if not flags:
        flags = [["-march=native"]]
    def run_demo(tag):
        res = []
        for i, f in enumerate(flags):
            exe = "%s/demo_%s_%d" % (wt, tag, i)
            c = sh("g++ -std=c++17 -O2 -w %s -I%s/include %s -o %s -lmpfr -lgmp -lpthread" % (" ".join(f), wt, os.path.join(src, "demo.cpp"), exe))
            if c.returncode:
                res.append({"flags": f, "compile_failed": c.stderr[-500:]})
                continue
            try:
                x = sh(exe, timeout=600)
                res.append({"flags": f, "rc": x.returncode, "tail": (x.stdout + x.stderr)[-300:]})
            except subprocess.TimeoutExpired:
                res.append({"flags": f, "rc": "timeout"})
        return res
    clean = run_demo("clean")
    a = sh("git -C %s apply %s" % (wt, os.path.join(src, "patch.diff")))
    if a.returncode:
        print("CONFIRM %s: patch does not apply: %s" % (sid, a.stderr[-300:])); sys.exit(1)
    mut = run_demo("mut")
    t0 = time.time()
    s = sh("/verif/tools/run_suite.sh %s %s/_b 6" % (wt, wt))
    suite_ok = s.returncode == 0 and "SUCCESS" in s.stdout
    clean_pass = all(r.get("rc") == 0 for r in clean)
    mut_fail = any(r.get("rc") not in (0, None) for r in mut)
    ok = clean_pass and mut_fail and suite_ok
    print("CONFIRM %s: clean_pass=%s mutant_fails=%s suite_ok=%s (%.0fs)" % (sid, clean_pass, mut_fail, suite_ok, time.time() - t0))
    if ok:
        d = "/verif/seeded/%s" % sid
        os.makedirs(d, exist_ok=True)
        for f in ("patch.diff", "demo.cpp", "README.md"):
            if os.path.exists(os.path.join(src, f)):
                shutil.copy(os.path.join(src, f), os.path.join(d, f))
        readme = open(os.path.join(src, "README.md")).read() if os.path.exists(os.path.join(src, "README.md")) else ""
        meta = {"property": prop, "source": "independent sub-agent given only the property text and a scratch worktree",
                "needs_to_manifest": readme[:1500],
                "confirmed": {"at_repo_commit": sh("git -C /repo rev-parse --short HEAD").stdout.strip(),
                              "demo_on_clean_tree": clean, "demo_with_change": mut,
                              "test_suite_with_change": "cmake + ninja + ctest + doctest binary in a scratch worktree: " + s.stdout.strip()[-200:]},
                "detected_by": []}
        json.dump(meta, open(os.path.join(d, "meta.json"), "w"), indent=1)
    else:
        print(json.dumps({"clean": clean, "mut": mut, "suite": s.stdout[-400:]})[:1500])
finally:
    sh("git -C /repo worktree remove --force %s" % wt)
    shutil.rmtree(wt, ignore_errors=True)
