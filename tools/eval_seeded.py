#!/usr/bin/env python3
"""eval_seeded.py [ids...]: applies every /verif/seeded/<id>/patch.diff to a scratch worktree of /repo, runs the quick checks
named in CHECKS (default: the property the change targets plus related ones) with XSV_REPO pointing there, and records
which checks report a violation in seeded/<id>/meta.json (detected_by) and in seeded/RESULTS.md."""
import json, os, subprocess, sys, glob, time
RELATED = {"C01": ["C01"], "C02": ["C02"], "C03": ["C03"], "C04": ["C04"], "C05": ["C05"], "C06": ["C06"], "C07": ["C07"], "C08": ["C08"], "C09": ["C09"],
           "C10": ["C10"], "C11": ["C11"], "C12": ["C12"], "C13": ["C13"], "C14": ["C14"], "C15": ["C15"], "C16": ["C16"], "C17": ["C17"], "C18": ["C18"], "C19": ["C19"], "C20": ["C20"]}
EXTRA = {"C04_m2": ["C05"], "C13_m1": ["C03"], "C13_m2": ["C11"], "C17_m2": ["C01"], "C19_m1": ["C05"], "C19_m2": ["C05"], "C19_m7": ["C05"], "C02_m2": ["C03"], "C16_m2": ["C04"]}
ids = sys.argv[1:] or sorted(os.path.basename(d) for d in glob.glob("/verif/seeded/C*_m*"))
wt = "/tmp/es_wt_%d" % os.getpid()
subprocess.run("git -C /repo worktree remove --force %s" % wt, shell=True, capture_output=True)
subprocess.check_call("git -C /repo worktree add -q %s HEAD" % wt, shell=True)
rows = []
try:
    for sid in ids:
        d = "/verif/seeded/" + sid
        meta = json.load(open(d + "/meta.json"))
        subprocess.check_call("git -C %s checkout -q -- . && git -C %s apply %s/patch.diff" % (wt, wt, d), shell=True)
        det, miss = [], []
        for c in RELATED[meta["property"]] + EXTRA.get(sid, []):
            od = "/tmp/es_out/%s/%s" % (sid, c)
            os.makedirs(od, exist_ok=True)
            t0 = time.time()
            env = dict(os.environ, XSV_REPO=wt, XSV_EVID_DIR=od, XSV_OUT_DIR=od + "/out")
            r = subprocess.run(["./check", c], cwd="/verif", env=env, capture_output=True, text=True)
            nv = r.stdout.count("VIOLATION property=")
            (det if (r.returncode == 1 and nv) else miss).append({"check": c, "tier": "quick", "seed": 1, "violations": nv, "rc": r.returncode, "wall_s": round(time.time() - t0)})
        meta["detected_by"] = det
        meta["not_detected_by"] = miss
        meta["evaluated_at_repo_commit"] = subprocess.run("git -C /repo rev-parse --short HEAD", shell=True, capture_output=True, text=True).stdout.strip()
        json.dump(meta, open(d + "/meta.json", "w"), indent=1)
        rows.append((sid, meta["property"], ",".join(x["check"] for x in det) or "-", ",".join(x["check"] for x in miss) or "-"))
        print("SEEDED", rows[-1], flush=True)
finally:
    subprocess.run("git -C /repo worktree remove --force %s" % wt, shell=True, capture_output=True)
with open("/verif/seeded/RESULTS.md", "w") as f:
    f.write("| seeded change | property | detected by (quick, seed 1) | not detected by |\n|---|---|---|---|\n")
    for d in sorted(glob.glob("/verif/seeded/C*_m*")):
        m = json.load(open(d + "/meta.json"))
        if "detected_by" not in m:
            continue
        f.write("| %s | %s | %s | %s |\n" % (os.path.basename(d), m["property"], ",".join(x["check"] for x in m["detected_by"]) or "-", ",".join(x["check"] for x in m.get("not_detected_by", [])) or "-"))
