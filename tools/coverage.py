#!/usr/bin/env python3
"""coverage.py <check id>... : which lines of /repo/include/xsimd does the quick tier of a check execute?

Rebuilds the shims of the named checks with gcov instrumentation (XSV_COVERAGE=1, separate cache keys), runs each check's
quick tier with evidence redirected, and aggregates the line counts of every xsimd header over all 22 targets.  Reports,
per header, the functions that were instantiated into some shim (so some operation of the harness can reach them) but never
executed on any target, and the executed functions with never-executed lines (rare branches).  A measurement of what the
generators reach -- not a property check, not registered in MANIFEST.json.  Output: /tmp/xsvcov/<check>.txt"""
import glob, gzip, json, os, subprocess, sys, collections

VERIF = os.path.dirname(os.path.dirname(os.path.abspath(__file__)))
sys.path.insert(0, VERIF)
os.environ["XSV_COVERAGE"] = "1"
from xsv import build  # noqa: E402

out = "/tmp/xsvcov"
os.makedirs(out, exist_ok=True)


def gcda_files():
    return glob.glob(os.path.join(build.CACHE, build.tree_hash(), "*.gcda"))


def aggregate(tag):
    lines = collections.defaultdict(lambda: collections.defaultdict(int))     # file -> line -> count (summed over targets)
    inst = collections.defaultdict(set)                                        # file -> lines instrumented somewhere
    funcs = {}                                                                 # (file, start, demangled generic name) -> [count, end]
    for g in gcda_files():
        r = subprocess.run(["gcov", "--json-format", "--stdout", "-m", g], capture_output=True, cwd=os.path.dirname(g))
        if r.returncode != 0 or not r.stdout:
            continue
        for doc in r.stdout.decode(errors="replace").splitlines():
            if not doc.startswith("{"):
                continue
            j = json.loads(doc)
            for f in j.get("files", []):
                fn = os.path.realpath(os.path.join(os.path.dirname(g), f["file"]))
                if "/include/xsimd/" not in fn:
                    continue
                rel = fn.split("/include/xsimd/", 1)[1]
                for fu in f.get("functions", []):
                    name = fu.get("demangled_name", fu["name"])
                    k = (rel, fu["start_line"])
                    cur = funcs.setdefault(k, [0, fu["end_line"], name.split("(")[0][-80:]])
                    cur[0] += fu["execution_count"]
                for ln in f.get("lines", []):
                    inst[rel].add(ln["line_number"])
                    lines[rel][ln["line_number"]] += ln["count"]
    rep = []
    tot_i = tot_c = 0
    for rel in sorted(inst):
        ni = len(inst[rel])
        nc = sum(1 for l in inst[rel] if lines[rel][l] > 0)
        tot_i += ni
        tot_c += nc
        rep.append("%-55s lines instrumented %5d executed %5d (%.0f%%)" % (rel, ni, nc, 100.0 * nc / max(1, ni)))
    rep.append("TOTAL instrumented %d executed %d (%.1f%%)" % (tot_i, tot_c, 100.0 * tot_c / max(1, tot_i)))
    rep.append("")
    rep.append("== functions instantiated into a shim and never executed on any target")
    for (rel, start), (cnt, end, name) in sorted(funcs.items()):
        if cnt == 0:
            rep.append("  %s:%d-%d  %s" % (rel, start, end, name))
    rep.append("")
    rep.append("== executed functions with lines never executed (on any target)")
    for (rel, start), (cnt, end, name) in sorted(funcs.items()):
        if cnt > 0:
            miss = [l for l in range(start, end + 1) if l in inst[rel] and lines[rel][l] == 0]
            if miss:
                rep.append("  %s:%d-%d  %s  missed lines %s" % (rel, start, end, name, ",".join(map(str, miss[:30]))))
    rep.append("")
    rep.append("== instrumented lines never executed on any target, per header (with source)")
    for rel in sorted(inst):
        miss = sorted(l for l in inst[rel] if lines[rel][l] == 0)
        if not miss:
            continue
        try:
            src = open(os.path.join(build.REPO, "include", "xsimd", rel), errors="replace").read().split("\n")
        except OSError:
            src = []
        rep.append("-- %s (%d lines)" % (rel, len(miss)))
        for l in miss:
            rep.append("   %5d: %s" % (l, src[l - 1].strip()[:150] if 0 < l <= len(src) else ""))
    open(os.path.join(out, tag + ".txt"), "w").write("\n".join(rep) + "\n")
    print("\n".join(rep[:60]))


for g in gcda_files():
    os.unlink(g)
for c in sys.argv[1:]:
    d = os.path.join(out, c)
    env = dict(os.environ, XSV_EVID_DIR=d, XSV_OUT_DIR=d + "/out", XSV_COVERAGE="1")
    os.makedirs(d, exist_ok=True)
    r = subprocess.run(["./check", c], cwd=VERIF, env=env, capture_output=True, text=True)
    print("== %s rc=%d %s" % (c, r.returncode, r.stderr[-300:] if r.returncode else ""), flush=True)
aggregate("_".join(sys.argv[1:]) if len(sys.argv) < 5 else "all")
