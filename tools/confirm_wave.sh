#!/bin/bash
# usage: confirm_wave.sh <worktree suffix, e.g. c> <id offset, e.g. 4> <prop...>
# confirms /tmp/mut/<prop><suffix>/out/mutant_{1,2} as seeded/<prop>_m{offset+1,offset+2} (tools/confirm_mutant.py, 3 at a time)
# and then evaluates the confirmed ones with the quick checks (tools/eval_seeded.py).  Works in scratch worktrees only.
sfx=$1; off=$2; shift 2
cd /verif
for p in "$@"; do
  for k in 1 2; do
    echo "python3 tools/confirm_mutant.py /tmp/mut/${p}${sfx}/out/mutant_$k ${p}_m$((k+off)) $p"
  done
done | xargs -P 3 -I{} bash -c "{}"
ids=""
for p in "$@"; do for k in 1 2; do [ -d seeded/${p}_m$((k+off)) ] && ids="$ids ${p}_m$((k+off))"; done; done
echo "EVAL $ids"
[ -n "$ids" ] && python3 tools/eval_seeded.py $ids
