#!/bin/bash
# usage: seed_sweep.sh "<seeds>" <props...> : runs quick checks for several seeds on the current /repo tree, evidence redirected
seeds=$1; shift
for s in $seeds; do for c in "$@"; do
  d=/tmp/seedsweep/$c.$s; mkdir -p $d
  XSV_EVID_DIR=$d XSV_OUT_DIR=$d/out VERIF_SEED=$s ./check $c > $d/log 2>&1; rc=$?
  echo "SEED $s $c rc=$rc $(grep -c '^VIOLATION' $d/log) $(grep -m1 '^\[check\]   ' $d/log | cut -c1-200)"
done; done
