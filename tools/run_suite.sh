#!/bin/bash
# usage: run_suite.sh <xsimd source dir> <build dir> [jobs]   -- builds and runs the pinned test suite the way BASELINE does
set -e
src=$1; bld=$2; j=${3:-8}
cmake -G Ninja -S "$src" -B "$bld" -DBUILD_TESTS=ON -DCMAKE_BUILD_TYPE=RelWithDebInfo -DCMAKE_CXX_FLAGS=-Wno-error > "$bld.cmake.log" 2>&1 || { tail -20 "$bld.cmake.log"; exit 2; }
cmake --build "$bld" -j"$j" > "$bld.build.log" 2>&1 || { grep -m5 -A5 "error" "$bld.build.log"; echo BUILD-FAILED; exit 2; }
ctest --test-dir "$bld" -j8 --timeout 900 > "$bld.ctest.log" 2>&1 || { tail -30 "$bld.ctest.log"; echo TESTS-FAILED; exit 1; }
tail -5 "$bld.ctest.log"
"$bld/test/test_xsimd" 2>&1 | tail -4
