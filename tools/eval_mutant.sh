#!/bin/bash
# usage: eval_mutant.sh <mutant dir with patch.diff> <prop> [prop...]
# applies the patch to /repo's working tree, runs the quick checks, restores the tree.  Prints one line per check.
d=$1; shift
cd /repo || exit 2
git apply --check "$d/patch.diff" 2>/dev/null || { echo "PATCH-DOES-NOT-APPLY $d"; exit 2; }
git apply "$d/patch.diff"
cd /verif
for c in "$@"; do
  s=$(date +%s)
  out=$(./check $c 2>&1); rc=$?
  e=$(( $(date +%s) - s ))
  echo "MUTANT $(basename $(dirname $(dirname $d)))/$(basename $d) check=$c rc=$rc violations=$(echo "$out" | grep -c '^VIOLATION') wall=${e}s"
  echo "$out" | grep -E "^\[check\]   " | cut -c1-230 | head -2
  echo "$out" | grep -E "HARNESS" | head -2
done
git -C /repo checkout -- .
