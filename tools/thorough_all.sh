#!/bin/bash
# runs every thorough tier once (evidence redirected), reporting wall time and verdicts; LIMIT seconds per check (default 5400)
LIMIT=${LIMIT:-5400}
for c in "$@"; do
  d=/tmp/thorough/$c; mkdir -p $d; s=$(date +%s)
  XSV_EVID_DIR=$d XSV_OUT_DIR=$d/out setsid ./check $c --tier thorough > $d/log 2>&1 &
  pid=$!; rc=""
  while kill -0 $pid 2>/dev/null; do
    if [ $(( $(date +%s) - s )) -gt $LIMIT ]; then kill -TERM -- -$pid 2>/dev/null; sleep 2; kill -KILL -- -$pid 2>/dev/null; rc=TIMEOUT; break; fi
    sleep 5
  done
  [ -z "$rc" ] && { wait $pid; rc=$?; }
  echo "THOROUGH $c rc=$rc wall=$(( $(date +%s) - s ))s violations=$(grep -c '^VIOLATION' $d/log) $(grep -m1 '^\[check\]   ' $d/log | cut -c1-200)"
done
