#!/bin/bash
# runs every thorough tier once (evidence redirected), reporting wall time and verdicts
for c in "$@"; do
  d=/tmp/thorough/$c; mkdir -p $d; s=$(date +%s)
  XSV_EVID_DIR=$d XSV_OUT_DIR=$d/out ./check $c --tier thorough > $d/log 2>&1; rc=$?
  echo "THOROUGH $c rc=$rc wall=$(( $(date +%s) - s ))s violations=$(grep -c '^VIOLATION' $d/log) $(grep -m1 '^\[check\]   ' $d/log | cut -c1-200)"
done
