#!/bin/bash
# For every "fix:" commit of /repo: re-introduce the defect in a scratch worktree, run the named quick checks against it
# (XSV_REPO), and keep the reported violations.  usage: reverse_fixes.sh  (writes /tmp/revfix/<commit>/...)
set -u
mkdir -p /tmp/revfix
cd /repo
git worktree remove --force /tmp/rv 2>/dev/null
git worktree add -q /tmp/rv HEAD
while read -r commit props; do
  [ -z "$commit" ] && continue
  cd /tmp/rv && git checkout -q -- . && git show $commit | git apply -R || { echo "REVFIX $commit cannot revert"; continue; }
  for c in $props; do
    d=/tmp/revfix/$commit/$c; mkdir -p $d
    (cd /verif && XSV_REPO=/tmp/rv XSV_EVID_DIR=$d/evid XSV_OUT_DIR=$d/out ./check $c > $d/log 2>&1); rc=$?
    echo "REVFIX $commit $(git -C /repo log --format=%s -1 $commit | cut -c1-60) | check=$c rc=$rc violations=$(grep -c '^VIOLATION' $d/log)"
  done
done <<LIST
$(cat /verif/tools/fix_list.txt)
LIST
cd /repo && git worktree remove --force /tmp/rv
