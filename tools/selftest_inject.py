#!/usr/bin/env python3
"""selftest_inject.py [prop ...]   -- pipeline self-test by fault injection (not a property check)

For every property whose check runs a shim-based driver, and for every operation of the shim families that check loads,
the driver is run restricted to that one operation (--ops) with XSV_INJECT=<op>:* set: the loader then corrupts lane 0 of
the kernel's first output for about half of the inputs (drivers/xsv.hpp, namespace inject).  Expected outcome per
(property, operation):
    DETECTED      workers produced candidates and at least one was confirmed from its record by three fresh replays
    NOT-CLAIMED   the driver generated no case for the operation under this property (the op belongs to another check)
    UNNOTICED     cases were generated and judged, but the corruption was never reported      -> a blind operation
    HARNESS       the pipeline ended with a harness error (e.g. a record the replay cannot run) -> a defect of the machinery
Prints one line per pair and a summary; exit 1 if any UNNOTICED / HARNESS pair is not listed in ALLOW below.
"""
import ctypes
import json
import os
import sys
import time

sys.path.insert(0, os.path.join(os.path.dirname(os.path.abspath(__file__)), ".."))
os.environ.setdefault("XSV_EVID_DIR", "/tmp/selftest/evid")
os.environ.setdefault("XSV_OUT_DIR", "/tmp/selftest/out")
from xsv import build, props  # noqa: E402
from xsv.runner import Check, HarnessError  # noqa: E402


class Entry(ctypes.Structure):
    _fields_ = [("op", ctypes.c_char_p), ("type", ctypes.c_char_p), ("lanes", ctypes.c_uint16), ("elem_bytes", ctypes.c_uint16), ("fn", ctypes.c_void_p)]


def table(so):
    lib = ctypes.CDLL(so)
    lib.xsv_table.restype = ctypes.POINTER(Entry)
    n = ctypes.c_size_t(0)
    t = lib.xsv_table(ctypes.byref(n))
    return sorted({t[i].op.decode() for i in range(n.value)})


# (property, driver, driver kwargs, families, extra args, budget)
PLAN = []
for p, cfg in props.ELEM.items():
    PLAN.append((p, "d_elem", {}, cfg["families"], ["--sweep", "1"], 40))
    if cfg.get("extra"):
        x = cfg["extra"]
        PLAN.append((p, x["driver"], {}, x["families"], x.get("args", []), max(1, x["quick"] // 2)))
for p, cfg in props.SIMPLE.items():
    if not cfg["families"] or p == "C14":  # C14 judges iteration counts, not values: a corrupted result is invisible to it by design
        continue
    PLAN.append((p, cfg["driver"], cfg.get("driver_kw", {}), cfg["families"], cfg.get("args", []), max(1, cfg["quick"]["budget"] // 4)))
    if cfg.get("extra"):
        x = cfg["extra"]
        PLAN.append((p, x["driver"], {}, x["families"], [], max(1, x["quick"] // 2)))
PLAN.append(("C19", "d_move", {}, ["move"], [], 2))

# pairs that are expected not to be noticed, with the reason
ALLOW = {
}

want = set(a for a in sys.argv[1:] if not a.startswith("--op="))
only_op = [a[5:] for a in sys.argv[1:] if a.startswith("--op=")]
rows = []
bad = 0
for prop, drvname, kw, fams, xargs, budget in PLAN:
    if want and prop not in want:
        continue
    shim_map = build.build_shims(fams)
    drv = build.build_driver(drvname, **kw)
    ops = set()
    for f in fams:
        for tgt in ("avx512bw", "sse2", "scalar"):
            if tgt in shim_map[f]:
                ops |= set(table(shim_map[f][tgt]))
    if "--ops" in xargs:
        ops &= set(xargs[xargs.index("--ops") + 1].split(","))
        xargs = [a for i, a in enumerate(xargs) if a != "--ops" and (i == 0 or xargs[i - 1] != "--ops")]
    for op in sorted(o for o in ops if not only_op or o in only_op):
        os.environ["XSV_INJECT"] = op + ":*"
        c = Check(prop, "quick", 1)
        c.write_shims(shim_map)
        t0 = time.time()
        verdict, detail = "", ""
        try:
            res = c.run_workers(drv, list(xargs) + ["--ops", op], nworkers=4, budget=budget, timeout=900)
            ev = sum(r.get("lane_checks", 0) for r in res)  # lanes actually compared with an oracle for this operation
            cand = sum(len(r.get("violations", [])) for r in res)
            c.handle_candidates(drv, res)
            if c.violations:
                verdict = "DETECTED"
            elif c.unreplayable:
                verdict, detail = "HARNESS", c.unreplayable[0][1][:200]
            elif ev == 0:
                verdict = "NOT-CLAIMED"
            else:
                verdict, detail = "UNNOTICED", "%d cases, %d candidates, %d flaky" % (ev, cand, len(c.flaky))
        except HarnessError as e:
            verdict, detail = "HARNESS", str(e)[-200:].replace("\n", " ")
        del os.environ["XSV_INJECT"]
        key = "%s %s %s" % (prop, drvname, op)
        if verdict in ("UNNOTICED", "HARNESS") and key not in ALLOW:
            bad += 1
        rows.append((key, verdict, detail))
        print("SELFTEST %-34s %-11s %4.0fs %s" % (key, verdict, time.time() - t0, detail), flush=True)
print("SELFTEST-SUMMARY pairs=%d detected=%d not_claimed=%d unnoticed=%d harness=%d" % (
    len(rows), sum(r[1] == "DETECTED" for r in rows), sum(r[1] == "NOT-CLAIMED" for r in rows), sum(r[1] == "UNNOTICED" for r in rows), sum(r[1] == "HARNESS" for r in rows)))
sys.exit(1 if bad else 0)
