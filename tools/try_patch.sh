#!/bin/bash
# usage: try_patch.sh <patch file | -R<commit>> <prop> [prop...]  -- apply to /repo working tree, run quick checks, restore
p=$1; shift
cd /repo
if [[ "$p" == -R* ]]; then git show "${p#-R}" | git apply -R || exit 2; else git apply "$p" || exit 2; fi
cd /verif
for c in "$@"; do
  out=$(./check $c 2>&1); rc=$?
  echo "== $c rc=$rc  $(echo "$out" | grep -c '^VIOLATION') violations"
  echo "$out" | grep -E "^\[check\]   " | cut -c1-260 | head -4
  echo "$out" | grep -E "HARNESS" | head -3
done
git -C /repo checkout -- .
