// Exact integer models (DESIGN 2.3).  No xsimd include; operands widened to __int128.
#ifndef XSV_INT_MODEL_HPP
#define XSV_INT_MODEL_HPP
#include <cstdint>
#include <limits>
#include <type_traits>

namespace model
{
    typedef __int128 i128;
    typedef unsigned __int128 u128;

    template <class T>
    inline T wrap(i128 v)
    {
        using U = typename std::make_unsigned<T>::type;
        return (T)(U)(u128)v;
    }
    template <class T>
    inline T clamp(i128 v)
    {
        using L = std::numeric_limits<T>;
        if (v > (i128)L::max())
            return L::max();
        if (v < (i128)L::min())
            return L::min();
        return (T)v;
    }
    inline i128 floor_div2(i128 v) { return v >> 1; } // arithmetic shift of __int128 floors
    inline i128 trunc_div2(i128 v) { return v / 2; }
    inline i128 ceil_div2(i128 v) { return (v + 1) >> 1; }

    template <class T>
    inline bool overflows(i128 v)
    {
        using L = std::numeric_limits<T>;
        return v > (i128)L::max() || v < (i128)L::min();
    }

    template <class T>
    inline T shl(T x, unsigned n)
    {
        using U = typename std::make_unsigned<T>::type;
        return (T)(U)((U)x << n);
    }
    template <class T>
    inline T shr(T x, unsigned n)
    {
        constexpr unsigned bits = sizeof(T) * 8;
        using U = typename std::make_unsigned<T>::type;
        U u = (U)x;
        if (n == 0)
            return x;
        U r = (U)(u >> n);
        if (std::is_signed<T>::value && (u >> (bits - 1)))
            r |= (U)(~(U)0 << (bits - n));
        return (T)r;
    }
    template <class T>
    inline T rotl(T x, unsigned n)
    {
        constexpr unsigned bits = sizeof(T) * 8;
        using U = typename std::make_unsigned<T>::type;
        U u = (U)x;
        n %= bits;
        if (n == 0)
            return x;
        return (T)(U)((U)(u << n) | (U)(u >> (bits - n)));
    }
    template <class T>
    inline T rotr(T x, unsigned n)
    {
        constexpr unsigned bits = sizeof(T) * 8;
        using U = typename std::make_unsigned<T>::type;
        U u = (U)x;
        n %= bits;
        if (n == 0)
            return x;
        return (T)(U)((U)(u >> n) | (U)(u << (bits - n)));
    }
}
#endif
