// IEEE-754 scalar models (DESIGN 2.3).  Built -ffp-contract=off on x86-64 (SSE2 scalar arithmetic):
// every + - * / sqrt below is one correctly rounded operation.
#ifndef XSV_FP_MODEL_HPP
#define XSV_FP_MODEL_HPP
#include <cmath>
#include <cstdint>
#include <cstring>
#include <limits>

namespace model
{
    template <class T>
    struct fpt;
    template <>
    struct fpt<float>
    {
        typedef uint32_t U;
        typedef int32_t I;
        static constexpr U sign = 0x80000000u;
        static constexpr int mant = 23;
        static constexpr int emax = 127; // max_exponent-1
        static constexpr int emin = -126; // min_exponent-1
    };
    template <>
    struct fpt<double>
    {
        typedef uint64_t U;
        typedef int64_t I;
        static constexpr U sign = 0x8000000000000000ull;
        static constexpr int mant = 52;
        static constexpr int emax = 1023;
        static constexpr int emin = -1022;
    };
    template <class T>
    inline typename fpt<T>::U bits(T x)
    {
        typename fpt<T>::U u;
        std::memcpy(&u, &x, sizeof u);
        return u;
    }
    template <class T>
    inline T from_bits(typename fpt<T>::U u)
    {
        T x;
        std::memcpy(&x, &u, sizeof x);
        return x;
    }
    // bit-identical, or both NaN
    template <class T>
    inline bool same(T a, T b)
    {
        if (std::isnan(a) || std::isnan(b))
            return std::isnan(a) && std::isnan(b);
        return bits(a) == bits(b);
    }
    // numerically equal (sign of zero free), or both NaN
    template <class T>
    inline bool numeq(T a, T b)
    {
        if (std::isnan(a) || std::isnan(b))
            return std::isnan(a) && std::isnan(b);
        return a == b;
    }
    template <class T>
    inline bool is_special(T x)
    {
        return x == 0 || !std::isfinite(x) || std::fabs(x) < std::numeric_limits<T>::min();
    }
    // unfused a*b+c: two roundings (volatile blocks any contraction the compiler might be tempted to do)
    template <class T>
    inline T mul_add_unfused(T a, T b, T c)
    {
        volatile T p = a * b;
        volatile T r = p + c;
        return r;
    }
    inline float fused(float a, float b, float c) { return ::fmaf(a, b, c); }
    inline double fused(double a, double b, double c) { return ::fma(a, b, c); }
    // exactness tests (is the rounded result the exact one?)
    inline bool add_inexact(float a, float b) { return (double)a + (double)b != (double)(float)(a + b); }
    inline bool mul_inexact(float a, float b) { return (double)a * (double)b != (double)(float)(a * b); }
    inline bool add_inexact(double a, double b)
    {
        long double e = (long double)a + (long double)b;
        return e != (long double)(double)(a + b);
    }
    inline bool mul_inexact(double a, double b)
    {
        double p = a * b;
        return std::isfinite(p) && ::fma(a, b, -p) != 0.0;
    }
}
#endif
