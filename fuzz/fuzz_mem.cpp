// libFuzzer + AddressSanitizer target for C04: every load/store form on exactly-sized heap buffers.
// The fuzzer bytes are decoded (FuzzedDataProvider) into {operation, element type, offset inside an over-allocated
// block or an exact-size block, payload}; ASan reports any byte touched outside [p, p + size*sizeof(T)), and the
// semantic oracle (lane i <-> element i, bit pattern intact) traps on a mismatch.
// Build: clang++ -std=c++17 -O1 -g -fsanitize=fuzzer,address <arch flags> -DXSV_ARCH=<tag> -I/repo/include
#include <xsimd/xsimd.hpp>

#include <fuzzer/FuzzedDataProvider.h>

#include <complex>
#include <cstdint>
#include <cstdio>
#include <cstdlib>
#include <cstring>
#include <vector>

namespace xs = xsimd;
using A = XSV_ARCH;

static void fail(const char* what, const char* type, int op, size_t off)
{
    std::fprintf(stderr, "C04-ORACLE-FAILURE %s type=%s op=%d offset=%zu arch=%s\n", what, type, op, off, A::name());
    std::fflush(stderr);
    __builtin_trap();
}

template <class T>
static void run(FuzzedDataProvider& fdp, const char* tname)
{
    using B = xs::batch<T, A>;
    constexpr size_t n = B::size;
    const int op = fdp.ConsumeIntegralInRange<int>(0, 9);
    const bool aligned = op == 1 || op == 3 || op == 5 || op == 7;
    const size_t al = A::alignment();
    // exact-size heap block (unaligned forms: any element offset inside a slightly larger block whose tail is exact)
    const size_t lead = aligned ? 0 : fdp.ConsumeIntegralInRange<size_t>(0, 7);
    const size_t bytes = (lead + n) * sizeof(T);
    unsigned char* raw = aligned ? static_cast<unsigned char*>(std::aligned_alloc(al, ((n * sizeof(T) + al - 1) / al) * al)) : static_cast<unsigned char*>(std::malloc(bytes));
    T* p = reinterpret_cast<T*>(raw) + lead;
    std::vector<uint8_t> payload = fdp.ConsumeBytes<uint8_t>(n * sizeof(T));
    payload.resize(n * sizeof(T), 0x5a);
    T img[n];
    std::memcpy(img, payload.data(), sizeof img);
    switch (op)
    {
    case 0:
    case 1:
    case 2:
    case 3:
    {
        std::memcpy(p, img, sizeof img);
        B v = op == 0 ? B::load_unaligned(p) : op == 1 ? B::load_aligned(p)
            : op == 2                                   ? xs::load_as<T, A>(p, xs::unaligned_mode {})
                                                        : xs::load_as<T, A>(p, xs::aligned_mode {});
        T out[n];
        std::memcpy(out, &v, sizeof out);
        if (std::memcmp(out, img, sizeof out))
            fail("load: lanes differ from memory", tname, op, lead);
        break;
    }
    case 4:
    case 5:
    case 6:
    case 7:
    {
        B v;
        std::memcpy(static_cast<void*>(&v), img, sizeof img);
        if (op == 4)
            v.store_unaligned(p);
        else if (op == 5)
            v.store_aligned(p);
        else if (op == 6)
            xs::store_as(p, v, xs::unaligned_mode {});
        else
            xs::store_as(p, v, xs::aligned_mode {});
        if (std::memcmp(p, img, sizeof img))
            fail("store: memory differs from lanes", tname, op, lead);
        break;
    }
    case 8:
    {
        // batch_bool <-> bool[n] on an exact-size block
        bool* bp = static_cast<bool*>(std::malloc(n));
        uint64_t m = 0;
        for (size_t i = 0; i < n; ++i)
        {
            bp[i] = payload[i % payload.size()] & 1;
            m |= uint64_t(bp[i]) << i;
        }
        auto mb = xs::batch_bool<T, A>::load_unaligned(bp);
        if (n <= 64 && mb.mask() != m)
            fail("bool load: mask differs", tname, op, 0);
        bool* bq = static_cast<bool*>(std::malloc(n));
        mb.store_unaligned(bq);
        if (std::memcmp(bp, bq, n))
            fail("bool store: bytes differ", tname, op, 0);
        std::free(bp);
        std::free(bq);
        break;
    }
    default:
    {
        // gather / scatter on an exact-size array of len elements
        using I = xs::as_integer_t<T>;
        const size_t len = fdp.ConsumeIntegralInRange<size_t>(n, 2 * n);
        T* arr = static_cast<T*>(std::malloc(len * sizeof(T)));
        for (size_t i = 0; i < len; ++i)
            std::memcpy(&arr[i], &payload[(i * sizeof(T)) % (payload.size() - sizeof(T) + 1)], sizeof(T));
        I idx[n];
        const size_t lim = sizeof(T) == 1 ? std::min<size_t>(len, 127) : len;
        for (size_t i = 0; i < n; ++i)
            idx[i] = (I)((i * 7 + fdp.ConsumeIntegralInRange<size_t>(0, lim - 1)) % lim);
        B g = B::gather(arr, xs::batch<I, A>::load_unaligned(idx));
        T out[n];
        std::memcpy(out, &g, sizeof out);
        for (size_t i = 0; i < n; ++i)
            if (std::memcmp(&out[i], &arr[(size_t)idx[i]], sizeof(T)))
                fail("gather: lane is not src[idx]", tname, op, i);
        std::free(arr);
        break;
    }
    }
    std::free(raw);
}

template <class T>
static void run_complex(FuzzedDataProvider& fdp, const char* tname)
{
    using C = std::complex<T>;
    using BC = xs::batch<C, A>;
    constexpr size_t n = BC::size;
    const size_t lead = fdp.ConsumeIntegralInRange<size_t>(0, 3);
    C* raw = static_cast<C*>(std::malloc((lead + n) * sizeof(C)));
    C* p = raw + lead;
    std::vector<uint8_t> payload = fdp.ConsumeBytes<uint8_t>(n * sizeof(C));
    payload.resize(n * sizeof(C), 0x3c);
    std::memcpy(static_cast<void*>(p), payload.data(), n * sizeof(C));
    BC z = BC::load_unaligned(p);
    T re[n], im[n];
    z.real().store_unaligned(re);
    z.imag().store_unaligned(im);
    for (size_t i = 0; i < n; ++i)
        if (std::memcmp(&re[i], payload.data() + (2 * i) * sizeof(T), sizeof(T)) || std::memcmp(&im[i], payload.data() + (2 * i + 1) * sizeof(T), sizeof(T)))
            fail("complex load: lane i is not memory element i", tname, 0, i);
    C* q = static_cast<C*>(std::malloc(n * sizeof(C)));
    z.store_unaligned(q);
    if (std::memcmp(static_cast<void*>(q), payload.data(), n * sizeof(C)))
        fail("complex store: memory differs", tname, 1, 0);
    std::free(q);
    std::free(raw);
}

extern "C" int LLVMFuzzerTestOneInput(const uint8_t* data, size_t size)
{
    FuzzedDataProvider fdp(data, size);
    switch (fdp.ConsumeIntegralInRange<int>(0, 11))
    {
    case 0: run<int8_t>(fdp, "i8"); break;
    case 1: run<uint8_t>(fdp, "u8"); break;
    case 2: run<int16_t>(fdp, "i16"); break;
    case 3: run<uint16_t>(fdp, "u16"); break;
    case 4: run<int32_t>(fdp, "i32"); break;
    case 5: run<uint32_t>(fdp, "u32"); break;
    case 6: run<int64_t>(fdp, "i64"); break;
    case 7: run<uint64_t>(fdp, "u64"); break;
    case 8: run<float>(fdp, "f32"); break;
    case 9: run<double>(fdp, "f64"); break;
    case 10: run_complex<float>(fdp, "c32"); break;
    default: run_complex<double>(fdp, "c64"); break;
    }
    return 0;
}
