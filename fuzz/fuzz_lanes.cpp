// libFuzzer target for C13 / C14 (elementary functions): coverage-guided search over whole batches, so that the
// any()/all() branches of the generic math kernels are reached by lane combinations the fuzzer discovers.
// Oracle (no reference model): lane k of f(x) against f(broadcast(x[k])): same special-value class and within
// 2 x bound + 1 ulp; the loop-iteration hook bounds every call (C14).
// Build: clang++ -std=c++17 -O1 -g -fsanitize=fuzzer,address -DXSIMD_VERIF_HOOKS <arch flags> -DXSV_ARCH=<tag>
#include <xsimd/xsimd.hpp>

#include <fuzzer/FuzzedDataProvider.h>

#ifndef XSV_ORACLE
#define XSV_ORACLE 13
#endif

#include <cmath>
#include <cstdlib>
#include <cstdint>
#include <cstdio>
#include <cstring>
#include <limits>

namespace xs = xsimd;
using A = XSV_ARCH;

static const char* g_fn = "";
static void fail(const char* what, double x, double a, double b, int lane)
{
    std::fprintf(stderr, "C13-ORACLE-FAILURE %s fn=%s arch=%s lane=%d x=%.17g f(x)[k]=%.17g f(broadcast)[0]=%.17g\n", what, g_fn, A::name(), lane, x, a, b);
    std::fflush(stderr);
    __builtin_trap();
}
static void tick_overflow()
{
    std::fprintf(stderr, "C14-ORACLE-FAILURE fn=%s arch=%s: a data-dependent loop ran more than 512 iterations in one call\n", g_fn, A::name());
    std::fflush(stderr);
    __builtin_trap();
}

template <class T>
static int cls(T v)
{
    if (std::isnan(v))
        return 1;
    if (std::isinf(v))
        return v > 0 ? 2 : 3;
    if (v == 0)
        return 4;
    return v > 0 ? 5 : 6;
}

template <class T, class F>
static void check(const char* name, double bound, bool trig, F f, const T* x)
{
    using B = xs::batch<T, A>;
    constexpr size_t n = B::size;
    g_fn = name;
    auto& ls = ::xsimd_verif::loops();
#if XSV_ORACLE == 14
    ls.limit = 512;
    ls.overflow = tick_overflow;
#else
    ls.limit = 100000; // C13 build: a runaway loop is C14's finding; just stop it
    ls.overflow = []() { std::_Exit(0); };
#endif
    ls.ticks = 0;
    T full[n], bo[n];
    f(B::load_unaligned(x)).store_unaligned(full);
    for (size_t k = 0; k < n; ++k)
    {
        ls.ticks = 0;
        f(B(x[k])).store_unaligned(bo);
#if XSV_ORACLE == 14
        continue; // C14 build: only the iteration bound is judged
#endif
        const T a = full[k], b = bo[0];
        for (size_t j = 1; j < n; ++j)
            if (std::memcmp(&bo[j], &bo[0], sizeof(T)) && !(std::isnan(bo[j]) && std::isnan(bo[0])))
                fail("f(broadcast(v)) differs between lanes", (double)x[k], (double)bo[j], (double)bo[0], (int)j);
        if (cls(a) != cls(b))
        {
            const T tiny = 16 * std::numeric_limits<T>::min(), huge = std::numeric_limits<T>::max() / 16;
            const bool t = (a == 0 || b == 0) && std::fabs(a) <= tiny && std::fabs(b) <= tiny;
            const bool h = (std::isinf(a) || std::isinf(b)) && !std::isnan(a) && !std::isnan(b) && std::signbit(a) == std::signbit(b) && std::fabs(a) >= huge && std::fabs(b) >= huge;
            if (!t && !h)
                fail("special-value class changes with the companions", (double)x[k], (double)a, (double)b, (int)k);
            continue;
        }
        if (!std::isfinite(a) || a == b)
            continue;
        // unit: ulp of the broadcast result (for the trigonometric functions not below the reduction's own resolution, see D18)
        double mv = std::fabs((double)b);
        if (trig)
            mv = std::max(mv, std::fabs((double)x[k]) * std::ldexp(1.0, sizeof(T) == 4 ? -20 : -46));
        mv = std::max(mv, (double)(4 * std::numeric_limits<T>::min()));
        int e;
        std::frexp(mv, &e);
        const double ulp = std::ldexp(1.0, e - std::numeric_limits<T>::digits);
        if (std::fabs((double)a - (double)b) / ulp > 2 * bound + 1)
            fail("lane result differs from f(broadcast(v)) by more than twice the accuracy bound", (double)x[k], (double)a, (double)b, (int)k);
    }
}

template <class T>
static void run(FuzzedDataProvider& fdp)
{
    using B = xs::batch<T, A>;
    constexpr size_t n = B::size;
    const int fn = fdp.ConsumeIntegralInRange<int>(0, 24);
    T x[n];
    // lanes: raw bit patterns, or values around a few magnitudes, chosen per lane by the fuzzer
    for (size_t i = 0; i < n; ++i)
    {
        const int mode = fdp.ConsumeIntegralInRange<int>(0, 3);
        if (mode == 0)
        {
            typename std::conditional<sizeof(T) == 4, uint32_t, uint64_t>::type u = fdp.ConsumeIntegral<decltype(u)>();
            std::memcpy(&x[i], &u, sizeof(T));
        }
        else
        {
            static const double scale[] = { 1, 1, 100, 1e-3 };
            x[i] = (T)(fdp.ConsumeFloatingPointInRange<double>(-40.0, 40.0) * scale[mode]);
        }
    }
#define F1(ID, NAME, BOUND, TRIG, EXPR) \
    case ID: check<T>(NAME, BOUND, TRIG, [](B v) { return EXPR; }, x); break;
    switch (fn)
    {
        F1(0, "exp", 2, false, xs::exp(v))
        F1(1, "exp2", 2, false, xs::exp2(v))
        F1(2, "exp10", 2.5, false, xs::exp10(v))
        F1(3, "expm1", 2.5, false, xs::expm1(v))
        F1(4, "log", 1.5, false, xs::log(v))
        F1(5, "log2", 2.5, false, xs::log2(v))
        F1(6, "log10", 1.5, false, xs::log10(v))
        F1(7, "log1p", 1.5, false, xs::log1p(v))
        F1(8, "sin", 3.5, true, xs::sin(v))
        F1(9, "cos", 3.5, true, xs::cos(v))
        F1(10, "tan", 4.5, true, xs::tan(v))
        F1(11, "asin", 3, false, xs::asin(v))
        F1(12, "acos", 2, false, xs::acos(v))
        F1(13, "atan", 3, false, xs::atan(v))
        F1(14, "sinh", 3.5, false, xs::sinh(v))
        F1(15, "cosh", 3.5, false, xs::cosh(v))
        F1(16, "tanh", 2, false, xs::tanh(v))
        F1(17, "asinh", 4.5, false, xs::asinh(v))
        F1(18, "acosh", 2.5, false, xs::acosh(v))
        F1(19, "atanh", 2.5, false, xs::atanh(v))
        F1(20, "cbrt", 1.5, false, xs::cbrt(v))
        F1(21, "erf", sizeof(T) == 4 ? 3.0 : 128.0, false, xs::erf(v))
        F1(22, "erfc", sizeof(T) == 4 ? 128.0 : 134217728.0, false, xs::erfc(v))
        F1(23, "tgamma", sizeof(T) == 4 ? 256.0 : 4096.0, false, xs::tgamma(v))
        F1(24, "lgamma", 1e9, false, xs::lgamma(v)) // accuracy of lgamma is judged by C10/C11 (open classes D16/D24): here only class + termination
    }
}

extern "C" int LLVMFuzzerTestOneInput(const uint8_t* data, size_t size)
{
    FuzzedDataProvider fdp(data, size);
    if (fdp.ConsumeBool())
        run<float>(fdp);
    else
        run<double>(fdp);
    return 0;
}
