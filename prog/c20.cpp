// C20: architecture descriptions and batch geometry are consistent for every ISA/type of the build.
// Enumerates every (architecture, element type) of xsimd::supported_architectures for the flags this TU is built with.
#include <xsimd/xsimd.hpp>

#include <complex>
#include <cstdint>
#include <cstdio>
#include <cstdlib>
#include <string>
#include <type_traits>

namespace xs = xsimd;
static int g_id = 0, g_fail = 0;
static void verdict(bool ok, const std::string& what)
{
    std::printf("V %d %d %s\n", g_id++, ok ? 1 : 0, what.c_str());
    if (!ok)
        ++g_fail;
}
#ifndef XSV_EXPECT_BITS
#define XSV_EXPECT_BITS 0
#endif

// register width by architecture family (independent of the library's own size computation)
template <class A>
struct regbits
{
    static constexpr size_t value = std::is_base_of<xs::avx512f, A>::value ? 512 : (std::is_base_of<xs::avx, A>::value ? 256 : 128);
};
#if XSIMD_WITH_EMULATED
template <size_t N>
struct regbits<xs::emulated<N>>
{
    static constexpr size_t value = N;
};
#endif
template <class A>
constexpr size_t reg_bits()
{
    return regbits<A>::value;
}

template <class T, class A>
static void check_type(const char* tn)
{
    using B = xs::batch<T, A>;
    using BB = xs::batch_bool<T, A>;
    using BC = xs::batch<std::complex<T>, A>;
    const std::string p = std::string(A::name()) + "/" + tn + ": ";
    verdict(B::size * sizeof(T) * 8 == reg_bits<A>(), p + "batch::size * sizeof(T) == register width (" + std::to_string(B::size) + " lanes)");
    verdict(BB::size == B::size, p + "batch_bool has the same lane count");
    verdict(sizeof(B) == reg_bits<A>() / 8, p + "sizeof(batch) is one register");
    verdict(std::is_same<typename B::value_type, T>::value && std::is_same<typename B::arch_type, A>::value, p + "value_type / arch_type");
    verdict(std::is_same<typename B::batch_bool_type, BB>::value, p + "batch_bool_type");
    verdict(xs::is_batch<B>::value && !xs::is_batch<T>::value, p + "is_batch");
    verdict(xs::is_batch_bool<BB>::value && !xs::is_batch_bool<B>::value, p + "is_batch_bool");
    verdict(std::is_same<xs::scalar_type_t<B>, T>::value && std::is_same<xs::scalar_type_t<T>, T>::value, p + "scalar_type_t");
    verdict(std::is_same<xs::mask_type_t<B>, BB>::value && std::is_same<xs::mask_type_t<T>, bool>::value, p + "mask_type_t");
    verdict(sizeof(xs::as_integer_t<T>) == sizeof(T) && std::is_integral<xs::as_integer_t<T>>::value && std::is_signed<xs::as_integer_t<T>>::value, p + "as_integer_t: signed integer of the same width");
    verdict(sizeof(xs::as_unsigned_integer_t<T>) == sizeof(T) && std::is_unsigned<xs::as_unsigned_integer_t<T>>::value, p + "as_unsigned_integer_t: unsigned integer of the same width");
    verdict(std::is_same<xs::as_integer_t<B>, xs::batch<xs::as_integer_t<T>, A>>::value, p + "as_integer_t of a batch is the batch of as_integer_t");
    // aligned loads at exactly alignment()-aligned (otherwise minimally aligned) addresses must not fault
    {
        const size_t al = A::alignment();
        verdict(al != 0 && (al & (al - 1)) == 0 && al >= reg_bits<A>() / 8 * (A::requires_alignment() ? 1 : 0), p + "alignment() is a power of two >= the register bytes");
        unsigned char* raw = static_cast<unsigned char*>(std::malloc(4 * al + sizeof(B) + 64));
        unsigned char* q = raw + (al - reinterpret_cast<uintptr_t>(raw) % al) + al; // q % al == 0, q % 2al == al or 0
        if (reinterpret_cast<uintptr_t>(q) % (2 * al) == 0)
            q += al; // exactly alignment()-aligned, not more
        T* tp = reinterpret_cast<T*>(q);
        for (size_t i = 0; i < B::size; ++i)
            tp[i] = T(i + 1);
        B v = B::load_aligned(tp);
        v.store_aligned(tp);
        bool ok = true;
        for (size_t i = 0; i < B::size; ++i)
            ok = ok && tp[i] == T(i + 1) && v.get(i) == T(i + 1);
        verdict(ok && xs::is_aligned<A>(tp), p + "load_aligned/store_aligned work at an exactly alignment()-aligned address");
        std::free(raw);
    }
}
template <class T, class A>
static void check_fp_type(const char* tn)
{
    using B = xs::batch<T, A>;
    using BC = xs::batch<std::complex<T>, A>;
    const std::string p = std::string(A::name()) + "/" + tn + ": ";
    verdict(BC::size == B::size, p + "complex batch has the same lane count");
    verdict(std::is_same<typename BC::real_batch, B>::value, p + "complex real_batch");
    verdict(std::is_same<xs::as_float_t<xs::as_integer_t<T>>, T>::value, p + "as_float_t(as_integer_t(T)) == T");
    verdict(std::is_same<xs::simd_return_type<T, T, A>, B>::value, p + "simd_return_type<T,T>");
    verdict(std::is_same<xs::simd_return_type<std::complex<T>, std::complex<T>, A>, BC>::value, p + "simd_return_type<complex,complex>");
    verdict(std::is_same<xs::simd_return_type<bool, T, A>, xs::batch_bool<T, A>>::value, p + "simd_return_type<bool,T>");
}

// traits of complex batches name types of matching width: the scalar type is the complex type (two registers = size complex values),
// the mask type is the batch_bool of the real type, value_type/real_batch agree
template <class T, class A>
static void check_complex_traits(const char* tn)
{
    using C = std::complex<T>;
    using BC = xs::batch<C, A>;
    const std::string p = std::string(A::name()) + "/" + tn + ": ";
    verdict(std::is_same<xs::scalar_type_t<BC>, C>::value && std::is_same<xs::scalar_type_t<C>, C>::value, p + "scalar_type_t of a complex batch is the complex type");
    verdict(sizeof(xs::scalar_type_t<BC>) * BC::size == sizeof(BC) && sizeof(BC) == 2 * reg_bits<A>() / 8, p + "sizeof(scalar_type_t) * size == sizeof(batch) == two registers");
    verdict(std::is_same<xs::mask_type_t<BC>, xs::batch_bool<T, A>>::value, p + "mask_type_t of a complex batch is batch_bool of the real type");
    verdict(std::is_same<typename BC::value_type, C>::value && std::is_same<typename BC::real_batch, xs::batch<T, A>>::value && std::is_same<typename BC::batch_bool_type, xs::batch_bool<T, A>>::value, p + "value_type / real_batch / batch_bool_type of a complex batch");
    verdict(xs::is_batch<BC>::value && xs::is_batch_complex<BC>::value && !xs::is_batch_complex<xs::batch<T, A>>::value, p + "is_batch / is_batch_complex");
    // a store of a complex batch writes size complex values = sizeof(scalar_type_t) * size bytes, no more
    {
        C buf[BC::size + 2];
        for (size_t i = 0; i < BC::size + 2; ++i)
            buf[i] = C(T(-7), T(-9));
        C src[BC::size];
        for (size_t i = 0; i < BC::size; ++i)
            src[i] = C(T(i + 1), T(100 + i));
        BC v = BC::load_unaligned(src);
        v.store_unaligned(buf + 1);
        bool ok = buf[0] == C(T(-7), T(-9)) && buf[BC::size + 1] == C(T(-7), T(-9));
        for (size_t i = 0; i < BC::size; ++i)
            ok = ok && buf[1 + i] == src[i];
        verdict(ok, p + "store_unaligned of a complex batch writes exactly size scalar_type values");
    }
}

// simd_return_type<T1, T2, A> names the batch of the destination type T2 (for every source type T1)
template <class T1, class T2, class A>
static void check_srt(const char* n1, const char* n2)
{
    using R = xs::simd_return_type<T1, T2, A>;
    verdict(std::is_same<R, xs::batch<T2, A>>::value && R::size * sizeof(T2) * 8 == reg_bits<A>(), std::string(A::name()) + ": simd_return_type<" + n1 + "," + n2 + "> is batch<" + n2 + "> of the register width");
}
template <class T1, class T2, class A>
static void check_srt_complex(const char* n1, const char* n2)
{
    using R = xs::simd_return_type<std::complex<T1>, std::complex<T2>, A>;
    verdict(std::is_same<R, xs::batch<std::complex<T2>, A>>::value && R::size == xs::batch<T2, A>::size, std::string(A::name()) + ": simd_return_type<complex<" + n1 + ">,complex<" + n2 + ">> is batch<complex<" + n2 + ">>");
}
template <class T1, class A>
static void check_srt_from(const char* n1)
{
    check_srt<T1, int8_t, A>(n1, "i8");
    check_srt<T1, uint8_t, A>(n1, "u8");
    check_srt<T1, int16_t, A>(n1, "i16");
    check_srt<T1, uint16_t, A>(n1, "u16");
    check_srt<T1, int32_t, A>(n1, "i32");
    check_srt<T1, uint32_t, A>(n1, "u32");
    check_srt<T1, int64_t, A>(n1, "i64");
    check_srt<T1, uint64_t, A>(n1, "u64");
    check_srt<T1, float, A>(n1, "f32");
    check_srt<T1, double, A>(n1, "f64");
}

template <class A>
static void check_arch()
{
    check_srt_from<int8_t, A>("i8");
    check_srt_from<uint8_t, A>("u8");
    check_srt_from<int16_t, A>("i16");
    check_srt_from<uint16_t, A>("u16");
    check_srt_from<int32_t, A>("i32");
    check_srt_from<uint32_t, A>("u32");
    check_srt_from<int64_t, A>("i64");
    check_srt_from<uint64_t, A>("u64");
    check_srt_from<float, A>("f32");
    check_srt_from<double, A>("f64");
    check_srt_complex<float, float, A>("f32", "f32");
    check_srt_complex<float, double, A>("f32", "f64");
    check_srt_complex<double, float, A>("f64", "f32");
    check_srt_complex<double, double, A>("f64", "f64");
    verdict(A::supported() && std::string(A::name()).size() > 0, std::string(A::name()) + ": supported() and has a name");
    check_type<int8_t, A>("i8");
    check_type<uint8_t, A>("u8");
    check_type<int16_t, A>("i16");
    check_type<uint16_t, A>("u16");
    check_type<int32_t, A>("i32");
    check_type<uint32_t, A>("u32");
    check_type<int64_t, A>("i64");
    check_type<uint64_t, A>("u64");
    check_type<float, A>("f32");
    check_type<double, A>("f64");
    check_fp_type<float, A>("f32");
    check_fp_type<double, A>("f64");
    // the fundamental types the register tables name one by one and that no <cstdint> alias reaches on LP64
    // (long long vs long, plain char): every one of them must be a full-width batch as well
    check_type<char, A>("char");
    check_type<signed char, A>("signed char");
    check_type<unsigned char, A>("unsigned char");
    check_type<short, A>("short");
    check_type<unsigned short, A>("unsigned short");
    check_type<int, A>("int");
    check_type<unsigned int, A>("unsigned int");
    check_type<long, A>("long");
    check_type<unsigned long, A>("unsigned long");
    check_type<long long, A>("long long");
    check_type<unsigned long long, A>("unsigned long long");
    check_complex_traits<float, A>("c32");
    check_complex_traits<double, A>("c64");
}

template <class... A>
static void for_each_arch(xs::arch_list<A...>)
{
    (void)std::initializer_list<int> { (check_arch<A>(), 0)... };
}
template <class... A>
static size_t max_alignment(xs::arch_list<A...>)
{
    size_t m = 0;
    (void)std::initializer_list<int> { (m = A::alignment() > m ? A::alignment() : m, 0)... };
    return m;
}
// best-first: nothing listed after an architecture may extend it
template <class A>
static bool ordered(xs::arch_list<A>) { return true; }
static bool ordered(xs::arch_list<>) { return true; }
template <class A, class B, class... R>
static bool ordered(xs::arch_list<A, B, R...>)
{
    bool ok = !(std::is_base_of<A, B>::value && !std::is_same<A, B>::value);
    bool rest[] = { true, !(std::is_base_of<A, R>::value && !std::is_same<A, R>::value)... };
    for (bool r : rest)
        ok = ok && r;
    return ok && ordered(xs::arch_list<B, R...> {});
}

template <class T, size_t N, class... A>
static bool some_arch_has(xs::arch_list<A...>)
{
    bool r = false;
    (void)std::initializer_list<int> { (r = r || xs::batch<T, A>::size == N, 0)... };
    return r;
}
template <class B, size_t N>
struct lanes_or_void
{
    static bool ok() { return B::size == N; }
};
template <size_t N>
struct lanes_or_void<void, N>
{
    static bool ok() { return true; }
};
template <class T, size_t N>
static void check_sized(const char* tn)
{
    using S = xs::make_sized_batch_t<T, N>;
    const std::string p = std::string("make_sized_batch<") + tn + "," + std::to_string(N) + ">: ";
    verdict(lanes_or_void<S, N>::ok(), p + "has exactly N lanes or is void");
    const bool exists = some_arch_has<T, N>(xs::supported_architectures {});
    verdict(std::is_void<S>::value != exists, p + (exists ? "non-void because a supported architecture has that geometry" : "void because no supported architecture has that geometry"));
}
template <class T>
static void check_sized_all(const char* tn)
{
    check_sized<T, 1>(tn);
    check_sized<T, 2>(tn);
    check_sized<T, 4>(tn);
    check_sized<T, 8>(tn);
    check_sized<T, 16>(tn);
    check_sized<T, 32>(tn);
    check_sized<T, 64>(tn);
    check_sized<T, 128>(tn);
}

int main()
{
    for_each_arch(xs::supported_architectures {});
    verdict(xs::supported_architectures::alignment() == max_alignment(xs::supported_architectures {}), "arch_list::alignment() is the maximum member alignment");
    verdict(xs::all_x86_architectures::alignment() == max_alignment(xs::all_x86_architectures {}), "all_x86_architectures::alignment() is the maximum member alignment");
    // arch_list::alignment() is the maximum whatever the order of the members
    verdict(xs::arch_list<xs::sse2>::alignment() == max_alignment(xs::arch_list<xs::sse2> {}), "alignment of a one-member list");
#if XSIMD_WITH_AVX
    verdict(xs::arch_list<xs::avx, xs::sse2>::alignment() == 32 && xs::arch_list<xs::sse2, xs::avx>::alignment() == 32 && xs::arch_list<xs::sse2, xs::avx, xs::sse3>::alignment() == 32
                && xs::arch_list<xs::sse2, xs::sse3, xs::avx>::alignment() == 32 && xs::arch_list<xs::avx, xs::sse3, xs::sse2>::alignment() == 32,
            "arch_list::alignment() of unsorted sse/avx lists is the maximum member alignment");
#endif
#if XSIMD_WITH_AVX512F
    verdict(xs::arch_list<xs::avx, xs::sse2, xs::avx512f>::alignment() == 64 && xs::arch_list<xs::sse2, xs::avx512f, xs::avx>::alignment() == 64 && xs::arch_list<xs::avx512f, xs::sse2, xs::avx>::alignment() == 64
                && xs::arch_list<xs::sse2, xs::avx, xs::sse3, xs::avx512f, xs::sse4_1>::alignment() == 64 && xs::arch_list<xs::avx, xs::avx, xs::sse2, xs::avx512f>::alignment() == 64,
            "arch_list::alignment() of unsorted lists containing avx512f is the maximum member alignment");
#endif
    verdict(ordered(xs::supported_architectures {}), "supported_architectures is ordered best-first (no architecture is listed after one it extends)");
    verdict(ordered(xs::all_x86_architectures {}), "all_x86_architectures is ordered best-first");
    verdict(std::is_same<xs::best_arch, xs::supported_architectures::best>::value, "best_arch is the head of supported_architectures");
    verdict(xs::supported_architectures::contains<xs::default_arch>(), "default_arch is a supported architecture");
    check_sized_all<int8_t>("i8");
    check_sized_all<uint16_t>("u16");
    check_sized_all<int32_t>("i32");
    check_sized_all<uint64_t>("u64");
    check_sized_all<float>("f32");
    check_sized_all<double>("f64");
#ifdef XSV_TARGET_ARCH
    // the target this TU is built for
    {
        using A = XSV_TARGET_ARCH;
        verdict(XSV_EXPECT_BITS == 0 || xs::batch<float, A>::size * 32 == XSV_EXPECT_BITS, std::string(A::name()) + ": register width matches archs.json");
#if XSV_TARGET_LISTED
        verdict(xs::supported_architectures::contains<A>(), std::string(A::name()) + ": listed in supported_architectures when built with its flags");
#else
        check_arch<A>(); // emulated architectures are not members of the default lists: checked on their own
#endif
    }
#endif
    std::printf("DONE %d checks %d failed\n", g_id, g_fail);
    return 0;
}
