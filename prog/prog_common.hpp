// Checker templates for generated programs (C05 compile-time masks, C19 constant batches, C20 geometry).
// Every checker prints one verdict line:  V <record id> <1 ok | 0 fail> <detail>
#ifndef XSV_PROG_COMMON_HPP
#define XSV_PROG_COMMON_HPP
#include <xsimd/xsimd.hpp>

#include <cstdint>
#include <cstdio>
#include <cstring>
#include <string>
#include <type_traits>

namespace xs = xsimd;
using A = XSV_ARCH;

inline void verdict(int id, bool ok, const std::string& detail)
{
    std::printf("V %d %d %s\n", id, ok ? 1 : 0, detail.c_str());
}
inline uint64_t pmix(uint64_t x)
{
    x += 0x9e3779b97f4a7c15ull;
    x = (x ^ (x >> 30)) * 0xbf58476d1ce4e5b9ull;
    x = (x ^ (x >> 27)) * 0x94d049bb133111ebull;
    return x ^ (x >> 31);
}
// tagged lanes: pairwise distinct bit patterns, x uses tags 0..n-1, y uses n..2n-1
template <class T>
inline void fill_tagged(T* v, size_t n, size_t tag0, uint64_t seed)
{
    for (size_t i = 0; i < n; ++i)
    {
        uint64_t tag = tag0 + i, val;
        if (sizeof(T) == 1)
            val = (tag * 37 + (seed & 0xff)) & 0xff;
        else
            val = (pmix(seed + tag * 77) << 12) | (tag + 1); // high bits differ between operands too (tag = tag0 + i)
        std::memcpy(&v[i], &val, sizeof(T));
    }
}
template <class T>
inline std::string lanes_str(const T* v, size_t n)
{
    std::string s;
    for (size_t i = 0; i < n && i < 8; ++i)
    {
        unsigned long long u = 0;
        std::memcpy(&u, &v[i], sizeof(T));
        char b[32];
        std::snprintf(b, sizeof b, "%s%llx", i ? "," : "", u);
        s += b;
    }
    return s;
}

// ---------------------------------------------------------------- C05: swizzle / shuffle with a compile-time mask
template <class T, class U, U... Idx>
void check_swizzle(int id, uint64_t seed)
{
    using B = xs::batch<T, A>;
    constexpr size_t n = B::size;
    static_assert(sizeof...(Idx) == n, "mask size");
    const U idx[n] = { Idx... };
    T x[n], out[n], exp[n];
    fill_tagged(x, n, 0, seed);
    B r = xs::swizzle(B::load_unaligned(x), xs::batch_constant<U, A, Idx...> {});
    r.store_unaligned(out);
    for (size_t i = 0; i < n; ++i)
        exp[i] = x[idx[i]];
    bool ok = std::memcmp(out, exp, sizeof out) == 0;
    size_t bad = 0;
    while (ok == false && bad < n && std::memcmp(&out[bad], &exp[bad], sizeof(T)) == 0)
        ++bad;
    verdict(id, ok, ok ? "" : "swizzle lane " + std::to_string(bad) + " should be x[" + std::to_string((unsigned long long)idx[bad]) + "] got " + lanes_str(out, n) + " x=" + lanes_str(x, n));
}
template <class T, class U, U... Idx>
void check_shuffle(int id, uint64_t seed)
{
    using B = xs::batch<T, A>;
    constexpr size_t n = B::size;
    static_assert(sizeof...(Idx) == n, "mask size");
    const U idx[n] = { Idx... };
    T x[n], y[n], out[n], exp[n];
    fill_tagged(x, n, 0, seed);
    fill_tagged(y, n, n, seed);
    B r = xs::shuffle(B::load_unaligned(x), B::load_unaligned(y), xs::batch_constant<U, A, Idx...> {});
    r.store_unaligned(out);
    for (size_t i = 0; i < n; ++i)
        exp[i] = idx[i] < n ? x[idx[i]] : y[idx[i] - n];
    bool ok = std::memcmp(out, exp, sizeof out) == 0;
    size_t bad = 0;
    while (ok == false && bad < n && std::memcmp(&out[bad], &exp[bad], sizeof(T)) == 0)
        ++bad;
    verdict(id, ok, ok ? "" : "shuffle lane " + std::to_string(bad) + " should be " + (idx[bad] < n ? "x[" + std::to_string((unsigned long long)idx[bad]) : "y[" + std::to_string((unsigned long long)(idx[bad] - n))) + "]");
}

// ---------------------------------------------------------------- C19: constant batches
template <class T, T... V>
void check_const_values(int id)
{
    using B = xs::batch<T, A>;
    constexpr size_t n = B::size;
    static_assert(sizeof...(V) == n, "pack size");
    constexpr xs::batch_constant<T, A, V...> c {};
    const T exp[n] = { V... };
    T a[n], b[n];
    c.as_batch().store_unaligned(a);
    B conv = c; // implicit conversion
    conv.store_unaligned(b);
    bool ok = std::memcmp(a, exp, sizeof a) == 0 && std::memcmp(b, exp, sizeof b) == 0;
    std::string why = ok ? "" : "as_batch()/conversion lanes differ from the pack";
    for (size_t i = 0; i < n && ok; ++i)
        if (c.get(i) != exp[i])
        {
            ok = false;
            why = "get(" + std::to_string(i) + ") differs from the pack";
        }
    static_assert(xs::batch_constant<T, A, V...> {}.get(0) == std::get<0>(std::make_tuple(V...)), "constexpr get(0)");
    verdict(id, ok, why);
}
template <class T, bool... V>
void check_bool_values(int id)
{
    using BB = xs::batch_bool<T, A>;
    constexpr size_t n = BB::size;
    static_assert(sizeof...(V) == n, "pack size");
    constexpr xs::batch_bool_constant<T, A, V...> c {};
    const bool exp[n] = { V... };
    bool a[n];
    BB conv = c;
    conv.store_unaligned(a);
    bool b[n];
    c.as_batch_bool().store_unaligned(b);
    bool ok = true;
    std::string why;
    uint64_t m = 0;
    for (size_t i = 0; i < n; ++i)
    {
        if (a[i] != exp[i] || b[i] != exp[i])
        {
            ok = false;
            why = "converted batch_bool lane " + std::to_string(i) + " differs from the pack";
        }
        if (c.get(i) != exp[i])
        {
            ok = false;
            why = "get(" + std::to_string(i) + ") differs from the pack";
        }
        if (exp[i])
            m |= uint64_t(1) << i;
    }
    if (ok && n <= 32)
    {
        // the width of the int result holds at most 32 lanes
        if ((uint64_t)(uint32_t)c.mask() != m || conv.mask() != m)
        {
            ok = false;
            why = "mask() = " + std::to_string((unsigned)c.mask()) + " but the run-time mask of the converted batch is " + std::to_string(conv.mask()) + " (pack mask " + std::to_string(m) + ")";
        }
    }
    verdict(id, ok, why);
}
// make_batch_constant<G>: lane i = G::get(i, n)
template <class T, class G>
void check_generator(int id)
{
    using B = xs::batch<T, A>;
    constexpr size_t n = B::size;
    auto c = xs::make_batch_constant<T, G, A>();
    T a[n];
    B(c).store_unaligned(a);
    bool ok = true;
    std::string why;
    for (size_t i = 0; i < n; ++i)
        if (a[i] != (T)G::get(i, n) || c.get(i) != (T)G::get(i, n))
        {
            ok = false;
            why = "lane " + std::to_string(i) + " is not G::get(i, n)";
        }
    verdict(id, ok, why);
}
template <class T, class G>
void check_bool_generator(int id)
{
    using BB = xs::batch_bool<T, A>;
    constexpr size_t n = BB::size;
    auto c = xs::make_batch_bool_constant<T, G, A>();
    bool a[n];
    BB(c).store_unaligned(a);
    bool ok = true;
    std::string why;
    for (size_t i = 0; i < n; ++i)
        if (a[i] != (bool)G::get(i, n) || c.get(i) != (bool)G::get(i, n))
        {
            ok = false;
            why = "lane " + std::to_string(i) + " is not G::get(i, n)";
        }
    verdict(id, ok, why);
}
// compile-time operators: result constant vs lane-wise scalar operation
template <class T, class CA, class CB, class CR, class F>
void check_const_op(int id, const char* opname, CA a, CB b, CR r, F f)
{
    constexpr size_t n = xs::batch<T, A>::size;
    bool ok = true;
    std::string why;
    for (size_t i = 0; i < n; ++i)
        if (r.get(i) != (T)f(a.get(i), b.get(i)))
        {
            ok = false;
            why = std::string("operator ") + opname + ": lane " + std::to_string(i) + " of the constant result differs from the scalar operation";
        }
    // and the constant result converts like any constant
    T lanes[n];
    xs::batch<T, A>(r).store_unaligned(lanes);
    for (size_t i = 0; i < n; ++i)
        if (lanes[i] != r.get(i))
        {
            ok = false;
            why = std::string("operator ") + opname + ": converted result differs from get()";
        }
    verdict(id, ok, why);
}
template <class T, class CA, class CB, class CR, class F>
void check_bool_op(int id, const char* opname, CA a, CB b, CR r, F f)
{
    constexpr size_t n = xs::batch<T, A>::size;
    bool ok = true;
    std::string why;
    for (size_t i = 0; i < n; ++i)
        if (r.get(i) != (bool)f(a.get(i), b.get(i)))
        {
            ok = false;
            why = std::string("operator ") + opname + ": lane " + std::to_string(i) + " differs";
        }
    verdict(id, ok, why);
}
// APIs taking a constant vs their run-time form on the converted batch
template <class T, bool... V>
void check_select_const(int id, uint64_t seed)
{
    using B = xs::batch<T, A>;
    constexpr size_t n = B::size;
    T x[n], y[n], a[n], b[n];
    fill_tagged(x, n, 0, seed);
    fill_tagged(y, n, n, seed);
    constexpr xs::batch_bool_constant<T, A, V...> c {};
    xs::select(c, B::load_unaligned(x), B::load_unaligned(y)).store_unaligned(a);
    xs::select(xs::batch_bool<T, A>(c), B::load_unaligned(x), B::load_unaligned(y)).store_unaligned(b);
    const bool m[n] = { V... };
    bool ok = std::memcmp(a, b, sizeof a) == 0;
    std::string why = ok ? "" : "select(batch_bool_constant) differs from select(run-time mask)";
    for (size_t i = 0; i < n && ok; ++i)
        if (std::memcmp(&a[i], m[i] ? &x[i] : &y[i], sizeof(T)))
        {
            ok = false;
            why = "select lane " + std::to_string(i) + " is not the chosen operand";
        }
    verdict(id, ok, why);
}
template <class T, class U, U... Idx>
void check_swizzle_vs_dynamic(int id, uint64_t seed)
{
    using B = xs::batch<T, A>;
    constexpr size_t n = B::size;
    T x[n], a[n], b[n];
    fill_tagged(x, n, 0, seed);
    constexpr xs::batch_constant<U, A, Idx...> c {};
    xs::swizzle(B::load_unaligned(x), c).store_unaligned(a);
    xs::swizzle(B::load_unaligned(x), c.as_batch()).store_unaligned(b);
    bool ok = std::memcmp(a, b, sizeof a) == 0;
    verdict(id, ok, ok ? "" : "swizzle(constant mask) differs from swizzle(run-time index batch of the same values)");
}
// shuffle(x, y, constant mask) against its run-time emulation on the converted index batch:
// select(idx < n, swizzle(x, idx mod n), swizzle(y, idx mod n))
template <class T, class U, U... Idx>
void check_shuffle_vs_dynamic(int id, uint64_t seed)
{
    using B = xs::batch<T, A>;
    using UB = xs::batch<U, A>;
    constexpr size_t n = B::size;
    T x[n], y[n], a[n], b[n];
    fill_tagged(x, n, 0, seed);
    fill_tagged(y, n, n, seed);
    constexpr xs::batch_constant<U, A, Idx...> c {};
    B bx = B::load_unaligned(x), by = B::load_unaligned(y);
    xs::shuffle(bx, by, c).store_unaligned(a);
    UB idx = c.as_batch();
    UB low = idx & UB(U(n - 1));
    B fromx = xs::swizzle(bx, low), fromy = xs::swizzle(by, low);
    U iv[n];
    idx.store_unaligned(iv);
    fromx.store_unaligned(b);
    T ty[n];
    fromy.store_unaligned(ty);
    for (size_t i = 0; i < n; ++i)
        if (iv[i] >= n)
            b[i] = ty[i];
    bool ok = std::memcmp(a, b, sizeof a) == 0;
    size_t bad = 0;
    while (!ok && bad < n && std::memcmp(&a[bad], &b[bad], sizeof(T)) == 0)
        ++bad;
    verdict(id, ok, ok ? "" : "shuffle(constant mask) lane " + std::to_string(bad) + " differs from the run-time emulation (dynamic swizzles of the converted index batch)");
}
#endif
