// C15: availability is reported only if CPU + OS support the architecture; dispatch picks the first available.
// Part 1: exhaustive enumeration of every (CPUID feature bits, OSXSAVE, XCR0) configuration through the
//         injected CPUID/XGETBV source (hook XSIMD_VERIF_HOOKS); the oracle is written from the property.
// Part 2: rapidcheck over (configuration, architecture sub-list, arguments) for dispatch.
#include <xsimd/xsimd.hpp>

#include <rapidcheck.h>

#include "xsv.hpp"

using namespace xsv;

// ---------------------------------------------------------------- configuration
// bit layout of a 26-bit configuration word
enum
{
    F_SSE2,
    F_SSE3,
    F_SSSE3,
    F_SSE41,
    F_SSE42,
    F_FMA,
    F_AVX,
    F_FMA4,
    F_AVX2,
    F_AVXVNNI,
    F_512F,
    F_512CD,
    F_512DQ,
    F_512BW,
    F_512ER,
    F_512PF,
    F_512IFMA,
    F_512VBMI,
    F_512VBMI2,
    F_512VNNI,
    F_OSXSAVE,
    X_1,
    X_2,
    X_5,
    X_6,
    X_7,
    NBITS
};
static const char* const kBitNames[NBITS] = { "sse2", "sse3", "ssse3", "sse4.1", "sse4.2", "fma", "avx", "fma4", "avx2", "avxvnni", "avx512f", "avx512cd", "avx512dq", "avx512bw",
                                              "avx512er", "avx512pf", "avx512ifma", "avx512vbmi", "avx512vbmi2", "avx512vnni", "OSXSAVE", "XCR0[1]", "XCR0[2]", "XCR0[5]", "XCR0[6]", "XCR0[7]" };

static thread_local uint32_t g_cfg = 0;
static thread_local int g_xgetbv_calls = 0;
static inline bool bit(uint32_t c, int b) { return (c >> b) & 1; }

static void fake_cpuid(int reg[4], int level, int count)
{
    const uint32_t c = g_cfg;
    reg[0] = reg[1] = reg[2] = reg[3] = 0;
    if (level == 1)
    {
        uint32_t ecx = 0, edx = 0;
        ecx |= (uint32_t)bit(c, F_SSE3) << 0 | (uint32_t)bit(c, F_SSSE3) << 9 | (uint32_t)bit(c, F_FMA) << 12 | (uint32_t)bit(c, F_SSE41) << 19 | (uint32_t)bit(c, F_SSE42) << 20
            | (uint32_t)bit(c, F_OSXSAVE) << 27 | (uint32_t)bit(c, F_AVX) << 28;
        edx |= (uint32_t)bit(c, F_SSE2) << 26;
        // unrelated bits that real CPUs set, so that a detector reading a neighbouring bit is caught
        ecx |= 1u << 1 | 1u << 13 | 1u << 23 | 1u << 25 | 1u << 26; // pclmul, cx16, popcnt, aes, xsave
        edx |= 1u << 0 | 1u << 4 | 1u << 8 | 1u << 15 | 1u << 23 | 1u << 24 | 1u << 25; // fpu tsc cx8 cmov mmx fxsr sse
        reg[2] = (int)ecx;
        reg[3] = (int)edx;
    }
    else if (level == 7 && count == 0)
    {
        uint32_t ebx = 0, ecx = 0;
        ebx |= (uint32_t)bit(c, F_AVX2) << 5 | (uint32_t)bit(c, F_512F) << 16 | (uint32_t)bit(c, F_512DQ) << 17 | (uint32_t)bit(c, F_512IFMA) << 21 | (uint32_t)bit(c, F_512PF) << 26
            | (uint32_t)bit(c, F_512ER) << 27 | (uint32_t)bit(c, F_512CD) << 28 | (uint32_t)bit(c, F_512BW) << 30;
        ecx |= (uint32_t)bit(c, F_512VBMI) << 1 | (uint32_t)bit(c, F_512VBMI2) << 6 | (uint32_t)bit(c, F_512VNNI) << 11;
        ebx |= 1u << 3 | 1u << 8 | 1u << 9; // bmi1 bmi2 erms
        reg[0] = 1; // max subleaf
        reg[1] = (int)ebx;
        reg[2] = (int)ecx;
    }
    else if (level == 7 && count == 1)
    {
        reg[0] = (int)((uint32_t)bit(c, F_AVXVNNI) << 4);
    }
    else if ((unsigned)level == 0x80000001u)
    {
        reg[2] = (int)((uint32_t)bit(c, F_FMA4) << 16 | 1u << 0 | 1u << 5); // lahf, lzcnt
    }
}
static unsigned fake_xgetbv()
{
    ++g_xgetbv_calls;
    const uint32_t c = g_cfg;
    return 1u /* x87 */ | (unsigned)bit(c, X_1) << 1 | (unsigned)bit(c, X_2) << 2 | (unsigned)bit(c, X_5) << 5 | (unsigned)bit(c, X_6) << 6 | (unsigned)bit(c, X_7) << 7;
}

// can real hardware present this configuration?  (XCR0 only meaningful with OSXSAVE: without it the XCR0 bits must be 0
// in the canonical encoding; XCR0[2] implies XCR0[1]; XCR0[7:5] all-or-none and only with XCR0[2])
static bool presentable(uint32_t c)
{
    const bool os = bit(c, F_OSXSAVE);
    const bool x1 = bit(c, X_1), x2 = bit(c, X_2), x5 = bit(c, X_5), x6 = bit(c, X_6), x7 = bit(c, X_7);
    if (!os)
        return !x1 && !x2 && !x5 && !x6 && !x7;
    if (x2 && !x1)
        return false;
    if (!(x5 == x6 && x6 == x7))
        return false;
    if (x5 && !x2)
        return false;
    return true;
}

// ---------------------------------------------------------------- architectures of the detector
struct ArchRow
{
    const char* name;
    bool (*reported)(const xsimd::detail::supported_arch&); // has(arch) OR the public data member of the same architecture: both are read by users
    bool (*consistent)(const xsimd::detail::supported_arch&); // has(arch) == data member
    int own[3]; // feature bits that must be set (-1 terminated)
    int state; // 0 xmm, 1 ymm, 2 zmm+opmask
    int parent; // index of the extension parent in this table (-1 none)
};
#define REP(EXPR, FIELD) [](const xsimd::detail::supported_arch& s) -> bool { return s.has(EXPR) || s.FIELD; }, [](const xsimd::detail::supported_arch& s) -> bool { return s.has(EXPR) == (s.FIELD != 0); }
static const ArchRow kArch[] = {
    /* 0*/ { "sse2", REP(xsimd::sse2 {}, sse2), { F_SSE2, -1, -1 }, 0, -1 },
    /* 1*/ { "sse3", REP(xsimd::sse3 {}, sse3), { F_SSE3, -1, -1 }, 0, 0 },
    /* 2*/ { "ssse3", REP(xsimd::ssse3 {}, ssse3), { F_SSSE3, -1, -1 }, 0, 1 },
    /* 3*/ { "sse4_1", REP(xsimd::sse4_1 {}, sse4_1), { F_SSE41, -1, -1 }, 0, 2 },
    /* 4*/ { "sse4_2", REP(xsimd::sse4_2 {}, sse4_2), { F_SSE42, -1, -1 }, 0, 3 },
    /* 5*/ { "fma3<sse4_2>", REP(xsimd::fma3<xsimd::sse4_2> {}, fma3_sse42), { F_FMA, -1, -1 }, 1, 4 },
    /* 6*/ { "avx", REP(xsimd::avx {}, avx), { F_AVX, -1, -1 }, 1, 4 },
    /* 7*/ { "fma3<avx>", REP(xsimd::fma3<xsimd::avx> {}, fma3_avx), { F_FMA, F_AVX, -1 }, 1, 6 },
    /* 8*/ { "fma4", REP(xsimd::fma4 {}, fma4), { F_FMA4, -1, -1 }, 1, 4 },
    /* 9*/ { "avx2", REP(xsimd::avx2 {}, avx2), { F_AVX2, -1, -1 }, 1, 6 },
    /*10*/ { "fma3<avx2>", REP(xsimd::fma3<xsimd::avx2> {}, fma3_avx2), { F_FMA, F_AVX2, -1 }, 1, 9 },
    /*11*/ { "avxvnni", REP(xsimd::avxvnni {}, avxvnni), { F_AVXVNNI, -1, -1 }, 1, 9 },
    /*12*/ { "avx512f", REP(xsimd::avx512f {}, avx512f), { F_512F, -1, -1 }, 2, 9 },
    /*13*/ { "avx512cd", REP(xsimd::avx512cd {}, avx512cd), { F_512CD, -1, -1 }, 2, 12 },
    /*14*/ { "avx512dq", REP(xsimd::avx512dq {}, avx512dq), { F_512DQ, -1, -1 }, 2, 13 },
    /*15*/ { "avx512bw", REP(xsimd::avx512bw {}, avx512bw), { F_512BW, -1, -1 }, 2, 14 },
    /*16*/ { "avx512er", REP(xsimd::avx512er {}, avx512er), { F_512ER, -1, -1 }, 2, 13 },
    /*17*/ { "avx512pf", REP(xsimd::avx512pf {}, avx512pf), { F_512PF, -1, -1 }, 2, 16 },
    /*18*/ { "avx512ifma", REP(xsimd::avx512ifma {}, avx512ifma), { F_512IFMA, -1, -1 }, 2, 15 },
    /*19*/ { "avx512vbmi", REP(xsimd::avx512vbmi {}, avx512vbmi), { F_512VBMI, -1, -1 }, 2, 18 },
    /*20*/ { "avx512vbmi2", REP(xsimd::avx512vbmi2 {}, avx512vbmi2), { F_512VBMI2, -1, -1 }, 2, 19 },
    /*21*/ { "avx512vnni<avx512bw>", REP(xsimd::avx512vnni<xsimd::avx512bw> {}, avx512vnni_bw), { F_512VNNI, -1, -1 }, 2, 15 },
    /*22*/ { "avx512vnni<avx512vbmi2>", REP(xsimd::avx512vnni<xsimd::avx512vbmi2> {}, avx512vnni_vbmi2), { F_512VNNI, F_512VBMI2, -1 }, 2, 20 },
};
static const int kNArch = sizeof(kArch) / sizeof(kArch[0]);

static bool state_enabled(uint32_t c, int state)
{
    const bool os = bit(c, F_OSXSAVE);
    const bool xmm = !os || bit(c, X_1);
    const bool ymm = os && bit(c, X_1) && bit(c, X_2);
    const bool zmm = ymm && bit(c, X_5) && bit(c, X_6) && bit(c, X_7);
    return state == 0 ? xmm : (state == 1 ? ymm : zmm);
}
static bool own_bits(uint32_t c, const ArchRow& a)
{
    for (int k = 0; k < 3 && a.own[k] >= 0; ++k)
        if (!bit(c, a.own[k]))
            return false;
    return true;
}
// feature bits closed under the extension chain: every set architecture bit has its parent's bits set
static bool closed(uint32_t c)
{
    for (int i = 0; i < kNArch; ++i)
        if (own_bits(c, kArch[i]) && kArch[i].parent >= 0 && !own_bits(c, kArch[kArch[i].parent]))
            return false;
    return true;
}

static std::string cfg_str(uint32_t c)
{
    std::string s;
    for (int b = 0; b < NBITS; ++b)
        if (bit(c, b))
            s += std::string(s.empty() ? "" : " ") + kBitNames[b];
    return s.empty() ? "(none)" : s;
}

struct Verdict
{
    int arch = -1;
    std::string why;
};
// returns true if the configuration satisfies the property; fills v otherwise
static bool judge(uint32_t c, const xsimd::detail::supported_arch& s, Verdict& v, uint64_t* converse_miss)
{
    for (int i = 0; i < kNArch; ++i)
    {
        const bool rep = kArch[i].reported(s);
        const bool req = own_bits(c, kArch[i]) && state_enabled(c, kArch[i].state);
        if (!kArch[i].consistent(s))
        {
            v.arch = i;
            v.why = std::string(kArch[i].name) + ": has(arch) and the data member of supported_arch for the same architecture disagree";
            return false;
        }
        if (rep && !req)
        {
            v.arch = i;
            v.why = std::string(kArch[i].name) + " reported available although " + (own_bits(c, kArch[i]) ? "the OS has not enabled the register state it needs" : "the CPU does not advertise its feature bit(s)");
            return false;
        }
        if (!rep && req && converse_miss)
            ++*converse_miss;
    }
    if (closed(c))
        for (int i = 0; i < kNArch; ++i)
            if (kArch[i].parent >= 0 && kArch[i].reported(s) && !kArch[kArch[i].parent].reported(s))
            {
                v.arch = i;
                v.why = std::string(kArch[i].name) + " reported available but its extension parent " + kArch[kArch[i].parent].name + " is not, on a configuration whose feature bits are closed under the extension chain";
                return false;
            }
    return true;
}

static Violation mkviol(const std::string& op, uint32_t c, const std::string& why, const std::string& extra = "")
{
    Violation v;
    v.kind = "cpuid";
    v.prop = "C15";
    v.op = op;
    v.type = "config";
    v.target = "native";
    v.imm[0] = c;
    v.why = why + " | configuration: " + cfg_str(c);
    v.in_hex.push_back(extra);
    return v;
}

// ---------------------------------------------------------------- dispatch
struct Call
{
    std::string arch;
    int a;
    double b;
    int id;
    int copies;
};
// an argument handed over as an rvalue: perfect forwarding reaches a by-value parameter without a single copy
struct Tracked
{
    int id;
    int copies = 0;
    bool moved_from = false;
    explicit Tracked(int i)
        : id(i)
    {
    }
    Tracked(const Tracked& o)
        : id(o.id)
        , copies(o.copies + 1)
    {
    }
    Tracked(Tracked&& o) noexcept
        : id(o.id)
        , copies(o.copies)
    {
        o.moved_from = true;
    }
};
static std::vector<Call> g_calls;
struct Functor
{
    template <class Arch>
    long operator()(Arch, int a, double& b, const std::string& tag, Tracked t) const
    {
        g_calls.push_back({ Arch::name(), a, b, t.id, t.copies });
        b += 1.0; // visible through the forwarded reference
        return (long)a * 3 + (long)tag.size();
    }
};
template <class... A>
struct ListInfo
{
    static std::vector<std::string> names() { return { A::name()... }; }
    static std::vector<bool> avail(const xsimd::detail::supported_arch& s) { return { s.has(A {})... }; }
};
template <class L>
struct Unpack;
template <class... A>
struct Unpack<xsimd::arch_list<A...>> : ListInfo<A...>
{
    using list = xsimd::arch_list<A...>;
};

template <class L>
static bool dispatch_case(Context& cx, uint32_t c, int a, double b, const std::string& tag, const char* lname, bool* applicable)
{
    g_cfg = c;
    xsimd::detail::supported_arch s;
    auto av = Unpack<L>::avail(s);
    auto nm = Unpack<L>::names();
    int first = -1;
    for (size_t i = 0; i < av.size(); ++i)
        if (av[i] && first < 0)
            first = (int)i;
    *applicable = first >= 0;
    if (first < 0)
        return true; // no architecture of the list is available: outside the property
    g_calls.clear();
    double bref = b;
    auto d = xsimd::dispatch<L>(Functor {});
    Tracked tr(a ^ 0x5a5a);
    long r = d(a, bref, tag, std::move(tr));
    cx.st.executions++;
    std::string why;
    if (g_calls.size() != 1)
        why = "functor invoked " + std::to_string(g_calls.size()) + " times";
    else if (g_calls[0].arch != nm[first])
        why = "dispatched to " + g_calls[0].arch + " but the first available architecture of the list is " + nm[first];
    else if (g_calls[0].a != a || g_calls[0].b != b)
        why = "arguments not forwarded unchanged";
    else if (bref != b + 1.0)
        why = "reference argument not forwarded by reference";
    else if (g_calls[0].id != (a ^ 0x5a5a) || g_calls[0].copies != 0 || !tr.moved_from)
        why = "rvalue argument not forwarded as an rvalue (copied " + std::to_string(g_calls[0].copies) + " times, source " + (tr.moved_from ? "moved from" : "left intact") + ")";
    else if (r != (long)a * 3 + (long)tag.size())
        why = "result of the functor not returned";
    if (!why.empty())
    {
        cx.add_violation(mkviol(std::string("dispatch:") + lname, c, why, std::to_string(a)));
        return false;
    }
    if (first > 0)
        cx.st.cls("dispatch_choice_not_head");
    else
        cx.st.cls("dispatch_choice_head");
    return true;
}

// best-first: an architecture derived from (= extending) another one must appear before it
template <class A>
static std::string order_after(xsimd::arch_list<A>) { return ""; }
template <class A, class B, class... R>
static std::string order_after(xsimd::arch_list<A, B, R...>)
{
    // A is at the head: nothing after it may be derived from it
    if (std::is_base_of<A, B>::value && !std::is_same<A, B>::value)
        return std::string(B::name()) + " (an extension of " + A::name() + ") is listed after it: the list is not best-first";
    std::string r = order_after(xsimd::arch_list<A, R...> {});
    return r;
}
static std::string order_violation(xsimd::arch_list<>) { return ""; }
template <class A, class... R>
static std::string order_violation(xsimd::arch_list<A, R...>)
{
    std::string r = order_after(xsimd::arch_list<A, R...> {});
    return r.empty() ? order_violation(xsimd::arch_list<R...> {}) : r;
}

using L_all = xsimd::supported_architectures;
using L_x86 = xsimd::all_x86_architectures;
using L_no512 = xsimd::arch_list<xsimd::avxvnni, xsimd::fma3<xsimd::avx2>, xsimd::avx2, xsimd::fma3<xsimd::avx>, xsimd::avx, xsimd::fma3<xsimd::sse4_2>, xsimd::sse4_2, xsimd::sse4_1, xsimd::ssse3, xsimd::sse3, xsimd::sse2>;
using L_sse = xsimd::arch_list<xsimd::sse4_2, xsimd::sse4_1, xsimd::ssse3, xsimd::sse3, xsimd::sse2>;
using L_sparse = xsimd::arch_list<xsimd::avx512bw, xsimd::avx2, xsimd::sse4_1, xsimd::sse2>;
using L_two = xsimd::arch_list<xsimd::avx512f, xsimd::sse2>;
using L_one = xsimd::arch_list<xsimd::sse2>;
using L_fma = xsimd::arch_list<xsimd::fma3<xsimd::avx2>, xsimd::fma3<xsimd::avx>, xsimd::fma3<xsimd::sse4_2>, xsimd::sse2>;
using L_512 = xsimd::arch_list<xsimd::avx512vnni<xsimd::avx512vbmi2>, xsimd::avx512vbmi2, xsimd::avx512vbmi, xsimd::avx512ifma, xsimd::avx512vnni<xsimd::avx512bw>, xsimd::avx512bw, xsimd::avx512dq, xsimd::avx512cd, xsimd::avx512f, xsimd::sse2>;

static bool dispatch_any(Context& cx, int which, uint32_t c, int a, double b, const std::string& tag, bool* applicable)
{
    switch (which)
    {
    case 0: return dispatch_case<L_all>(cx, c, a, b, tag, "supported_architectures", applicable);
    case 1: return dispatch_case<L_no512>(cx, c, a, b, tag, "no_avx512", applicable);
    case 2: return dispatch_case<L_sse>(cx, c, a, b, tag, "sse_only", applicable);
    case 3: return dispatch_case<L_sparse>(cx, c, a, b, tag, "sparse", applicable);
    case 4: return dispatch_case<L_two>(cx, c, a, b, tag, "avx512f_sse2", applicable);
    case 5: return dispatch_case<L_one>(cx, c, a, b, tag, "sse2_only", applicable);
    case 6: return dispatch_case<L_fma>(cx, c, a, b, tag, "fma_family", applicable);
    case 7: return dispatch_case<L_512>(cx, c, a, b, tag, "avx512_family", applicable);
    default: return dispatch_case<L_x86>(cx, c, a, b, tag, "all_x86", applicable);
    }
}
static const int kNLists = 9;

// build a presentable configuration from generated pieces
static uint32_t make_cfg(uint32_t feat, int osmode)
{
    uint32_t c = feat & ((1u << F_OSXSAVE) - 1);
    switch (osmode)
    {
    case 0: break; // no OSXSAVE
    case 1: c |= 1u << F_OSXSAVE | 1u << X_1; break; // XSAVE, SSE state only
    case 2: c |= 1u << F_OSXSAVE | 1u << X_1 | 1u << X_2; break; // + AVX state
    default: c |= 1u << F_OSXSAVE | 1u << X_1 | 1u << X_2 | 1u << X_5 | 1u << X_6 | 1u << X_7; break; // + AVX-512 state
    }
    return c;
}

int main(int argc, char** argv)
{
    Context cx;
    cx.opt = parse_options(argc, argv);
    g_ctx() = &cx;
    install_crash_handlers();
    xsimd_verif::source().cpuid = fake_cpuid;
    xsimd_verif::source().xgetbv = fake_xgetbv;
    xsimd_verif::source().bypass_cache = true;

    if (!cx.opt.replay.empty())
    {
        // tokens: op type target imm extra
        const auto& tok = cx.opt.replay;
        if (tok.size() < 4)
            return 2;
        uint32_t c = (uint32_t)strtoull(tok[3].c_str(), 0, 10);
        bool ok = true;
        if (tok[0] == "list_order")
        {
            std::string bad = order_violation(xsimd::all_x86_architectures {});
            if (bad.empty())
                bad = order_violation(xsimd::supported_architectures {});
            ok = bad.empty();
            if (!ok)
                cx.add_violation(mkviol("list_order", 0, bad));
        }
        else if (tok[0].rfind("dispatch:", 0) == 0)
        {
            for (int w = 0; w < kNLists; ++w)
            {
                bool app;
                ok = dispatch_any(cx, w, c, tok.size() > 4 ? atoi(tok[4].c_str()) : 7, 2.5, "tag", &app) && ok;
            }
        }
        else
        {
            g_cfg = c;
            g_xgetbv_calls = 0;
            xsimd::detail::supported_arch s;
            Verdict v;
            ok = judge(c, s, v, nullptr);
            if (!ok)
                cx.add_violation(mkviol("availability", c, v.why));
            if (ok && !bit(c, F_OSXSAVE) && g_xgetbv_calls)
            {
                ok = false;
                cx.add_violation(mkviol("availability", c, "XGETBV executed although CPUID.OSXSAVE is clear (the instruction faults there)"));
            }
            // the cached accessor must agree with a fresh detection when the cache is bypassed
        }
        printf(ok ? "REPLAY-PASS\n" : "REPLAY-FAIL %s\n", ok ? "" : cx.violations[0].to_json().c_str());
        return ok ? 0 : 1;
    }

    // ---------------- part 1: exhaustive enumeration, sliced over the workers by the high bits
    uint64_t judged = 0, unpresentable = 0, converse_miss = 0, nontrivial = 0, closed_n = 0, xgetbv_without_osxsave = 0;
    const uint32_t total = 1u << NBITS;
    const uint32_t lo = (uint32_t)((uint64_t)total * cx.opt.worker / cx.opt.nworkers), hi = (uint32_t)((uint64_t)total * (cx.opt.worker + 1) / cx.opt.nworkers);
    std::map<int, uint64_t> viol_by_arch;
    for (uint32_t c = lo; c < hi; ++c)
    {
        g_cfg = c;
        g_xgetbv_calls = 0;
        xsimd::detail::supported_arch s;
        cx.st.evaluations++;
        if (!bit(c, F_OSXSAVE) && g_xgetbv_calls)
            ++xgetbv_without_osxsave; // XGETBV would fault (#UD) here on real hardware
        if (!presentable(c))
        {
            ++unpresentable;
            continue;
        }
        ++judged;
        if (!bit(c, F_OSXSAVE) && g_xgetbv_calls)
        {
            cx.add_violation(mkviol("availability", c, "XGETBV executed although CPUID.OSXSAVE is clear (the instruction faults there)"), false);
            continue;
        }
        // non-trivial: some feature bit set whose OS state is disabled, or OSXSAVE clear with an AVX-class bit set
        bool nt = false;
        for (int i = 0; i < kNArch; ++i)
            if (own_bits(c, kArch[i]) && !state_enabled(c, kArch[i].state))
                nt = true;
        if (nt)
            ++nontrivial;
        if (closed(c))
            ++closed_n;
        Verdict v;
        if (!judge(c, s, v, &converse_miss))
        {
            if (viol_by_arch[v.arch]++ == 0)
            {
                Violation vv = mkviol("availability", c, v.why);
                vv.type = kArch[v.arch].name;
                cx.add_violation(vv, false);
            }
        }
        else if (nt && (c % 200003u) == 0 && cx.st.samples.size() < 24)
        {
            std::string rep;
            for (int i = 0; i < kNArch; ++i)
                if (kArch[i].reported(s))
                    rep += std::string(rep.empty() ? "" : ",") + kArch[i].name;
            cx.st.samples.push_back("{\"configuration\":" + jstr(cfg_str(c)) + ",\"reported_available\":" + jstr(rep) + "}");
        }
    }
    cx.st.classes["configurations_judged(presentable)"] = judged;
    cx.st.classes["configurations_recorded_not_judged(unpresentable)"] = unpresentable;
    cx.st.classes["closed_configurations(monotonicity judged)"] = closed_n;
    cx.st.classes["converse_misses(info: feature+state present but not reported)"] = converse_miss;
    cx.st.classes["xgetbv_called_without_osxsave(any configuration)"] = xgetbv_without_osxsave;
    cx.st.nontrivial_cases = nontrivial;
    cx.st.distinct_extra = nontrivial;
    // distinct non-trivial: every configuration word is distinct by construction
    cx.st.exhaustive = true;

    // ---------------- static part: the default lists are ordered best-first (no architecture appears after one of its bases)
    if (cx.opt.worker == 0)
    {
        std::string bad = order_violation(xsimd::all_x86_architectures {});
        if (bad.empty())
            bad = order_violation(xsimd::supported_architectures {});
        if (bad.empty() && !std::is_same<xsimd::best_arch, typename xsimd::supported_architectures::best>::value)
            bad = "best_arch is not the head of supported_architectures";
        cx.st.evaluations++;
        if (!bad.empty())
            cx.add_violation(mkviol("list_order", 0, bad));
    }

    // ---------------- part 2: dispatch (rapidcheck)
    uint64_t dispatch_cases = 0, dispatch_nontrivial = 0;
    {
        rc::detail::TestParams params = rc::detail::configuration().testParams;
        params.maxSuccess = (int)std::max<long>(1, cx.opt.budget);
        rc::detail::TestMetadata md;
        md.id = "dispatch";
        rc::detail::checkTestable(
            [&]() {
                const uint32_t feat = *rc::gen::resize(100, rc::gen::weightedOneOf<uint32_t>({
                    { 3, rc::gen::map(rc::gen::arbitrary<uint32_t>(), [](uint32_t v) { return (uint32_t)mix64(v); }) },
                    { 2, rc::gen::map(rc::gen::inRange<int>(0, 21), [](int k) { return (1u << k) - 1; }) }, // closed prefixes (in table order)
                    { 1, rc::gen::just<uint32_t>(0xFFFFFu) },
                    { 1, rc::gen::just<uint32_t>(1u) } }));
                const int osmode = *rc::gen::resize(100, rc::gen::inRange<int>(0, 4));
                const int which = *rc::gen::resize(100, rc::gen::inRange<int>(0, kNLists));
                const int a = *rc::gen::arbitrary<int>();
                const double b = (double)*rc::gen::inRange<int>(-1000, 1000) / 8.0;
                const std::string tag = *rc::gen::container<std::string>(rc::gen::inRange<char>('a', 'z'));
                const uint32_t c = make_cfg(feat, osmode);
                bool app = false;
                const size_t before = cx.st.classes["dispatch_choice_not_head"];
                bool ok = dispatch_any(cx, which, c, a % 100000, b, tag, &app);
                if (app)
                {
                    ++dispatch_cases;
                    if (cx.st.classes["dispatch_choice_not_head"] > before)
                    {
                        ++dispatch_nontrivial;
                        cx.st.distinct.insert(hash_bytes(&c, 4, which * 977 + (uint64_t)(a % 100000)));
                        if (cx.st.want_sample("dispatch" + std::to_string(which), 1))
                            cx.st.samples.push_back("{\"dispatch_list\":" + std::to_string(which) + ",\"configuration\":" + jstr(cfg_str(c)) + ",\"chosen\":" + jstr(g_calls.empty() ? "" : g_calls[0].arch) + "}");
                    }
                }
                RC_ASSERT(ok);
            },
            md, params);
    }
    cx.st.classes["dispatch_cases"] = dispatch_cases;
    cx.st.classes["dispatch_cases_nontrivial(choice not head of list)"] = dispatch_nontrivial;
    cx.st.evaluations += dispatch_cases;
    cx.write_out();
    // report the configuration-space counts through the generic fields
    return cx.violations.empty() ? 0 : 1;
}
