// Element-wise engine: an operation is a table entry (name, arity, input kinds, per-type lane judge);
// a case is one register image per input; every selected target executes it and every lane is judged
// against the scalar oracle.  Serves C01 C02 C03(cmp) C06 C07 C08 C13(exact) C17.
#ifndef XSV_ELEM_HPP
#define XSV_ELEM_HPP
#include "xsv.hpp"

namespace xsv
{
    enum InKind
    {
        K_VAL, // ordinary lane value of the element type
        K_COUNT, // shift/rotate count: lane value in [0,bits)
        K_MASK, // batch_bool image: one byte per lane (0/1)
        K_IEXP, // integer exponent lane (same width as the floating element): ldexp
        K_NONE
    };
    enum ImmKind
    {
        IMM_NONE,
        IMM_COUNT, // scalar count in [0,bits)
        IMM_EXP // ldexp-like exponent (driver specific range)
    };
    enum OutKind
    {
        O_SAME, // batch of the input type
        O_BOOL, // batch_bool: one byte per lane + side info in out1
        O_OTHER // batch of another element type (conversions): out_type[]
    };
    // class flags reported by judges (non-zero => lane is non-trivial)
    enum
    {
        CL_WRAP = 1, // result differs from the exact mathematical value (carry/borrow/overflow)
        CL_SAT = 2, // saturated
        CL_NEG = 4, // negative operand / sign bit involved
        CL_EXTREME = 8, // MIN/MAX/all-ones operand, or count in {0,1,bits-1}
        CL_TIE = 16, // rounding tie
        CL_SPECIAL = 32, // zero / subnormal / inf / NaN operand or result
        CL_INEXACT = 64, // exact result not representable
        CL_BOUNDARY = 128, // within 2 ulp of a power of two / an integer boundary, bits shifted out
        CL_FUSEDIFF = 256, // fused and unfused results differ
        CL_TRUE = 512, // predicate true
        CL_FALSE = 1024 // predicate false (counted non-trivial only for mixed batches)
    };
    static const char* const kClassNames[] = { "wrap", "saturate", "negative", "extreme", "tie", "special", "inexact", "boundary", "fused_differs", "pred_true", "pred_false" };

    // judge result
    enum
    {
        J_OK = 0,
        J_FAIL = 1,
        J_SKIP = 2
    };
    // in: pointers to the lane's operand (per input), got/exp: pointer to result lane, side: out1 area (bool ops)
    typedef int (*LaneJudge)(const void* const* in, int64_t imm, const void* got, void* exp, unsigned* cls, std::string* why);

    struct OpDef
    {
        std::string name, prop, family;
        int arity = 1;
        InKind kind[4] = { K_VAL, K_NONE, K_NONE, K_NONE };
        ImmKind imm = IMM_NONE;
        OutKind out = O_SAME;
        TypeId out_type[NT];
        LaneJudge judge[NT];
        bool div_like = false;
        bool agree = false; // C17: every target's lane-0 result must be bit-identical to the first (scalar) target's
        bool cheap_only = false; // skip the large strided/exhaustive enumerations (value-independent data movement) // second operand must avoid 0 when neutral filler is needed
        std::string gen_hint; // driver-specific generation hint
        OpDef()
        {
            for (int i = 0; i < NT; ++i)
            {
                judge[i] = nullptr;
                out_type[i] = (TypeId)i;
            }
        }
    };
    inline std::vector<OpDef>& op_registry()
    {
        static std::vector<OpDef> r;
        return r;
    }
    inline OpDef& new_op(const char* name, const char* prop, const char* family, int arity)
    {
        op_registry().emplace_back();
        OpDef& d = op_registry().back();
        d.name = name;
        d.prop = prop;
        d.family = family;
        d.arity = arity;
        for (int i = 0; i < arity; ++i)
            d.kind[i] = K_VAL;
        return d;
    }
    // an operation name can be registered by two properties for the same type (to_int: C06 in the conversion family, C08 in
    // the floating family): the definition of the running property wins
    inline const OpDef* find_op(const std::string& name, int type = -1, const std::string& prop = "")
    {
        if (!prop.empty())
            for (auto& d : op_registry())
                if (d.name == name && d.prop == prop && (type < 0 || d.judge[type]))
                    return &d;
        for (auto& d : op_registry())
            if (d.name == name && (type < 0 || d.judge[type]))
                return &d;
        return nullptr;
    }

#define XSV_J [](auto* a, int64_t imm, auto got, auto& exp, unsigned& cls) -> int
#define XSV_T typename std::remove_reference<decltype(exp)>::type

    // typed judge adaptor.  F: int(const T* in, int64_t imm, R got, R& exp, unsigned& cls)
    template <class T, class R, class F>
    LaneJudge make_judge(F f)
    {
        static F sf = f;
        return [](const void* const* in, int64_t imm, const void* got, void* exp, unsigned* cls, std::string* why) -> int {
            T a[4];
            for (int i = 0; i < 4; ++i)
                if (in[i])
                    memcpy(&a[i], in[i], sizeof(T));
                else
                    memset(&a[i], 0, sizeof(T));
            R g, e;
            memcpy(&g, got, sizeof(R));
            memset(&e, 0, sizeof(R));
            int rc = sf(a, imm, g, e, *cls);
            memcpy(exp, &e, sizeof(R));
            (void)why;
            return rc;
        };
    }
    // judge adaptor with raw access to mask byte inputs: F: int(const T* in, const uint8_t* maskbyte, imm, got, exp, cls)
    template <class T, class R, class F>
    LaneJudge make_judge_m(F f, int mask_input)
    {
        static F sf = f;
        static int mi = mask_input;
        return [](const void* const* in, int64_t imm, const void* got, void* exp, unsigned* cls, std::string*) -> int {
            T a[4];
            uint8_t m = 0;
            for (int i = 0; i < 4; ++i)
            {
                memset(&a[i], 0, sizeof(T));
                if (!in[i])
                    continue;
                if (i == mi)
                    memcpy(&m, in[i], 1);
                else
                    memcpy(&a[i], in[i], sizeof(T));
            }
            R g, e;
            memcpy(&g, got, sizeof(R));
            memset(&e, 0, sizeof(R));
            int rc = sf(a, m, imm, g, e, *cls);
            memcpy(exp, &e, sizeof(R));
            return rc;
        };
    }

    // ------------------------------------------------------------------ case
    struct ElemCase
    {
        const OpDef* op = nullptr;
        TypeId type = I8;
        alignas(64) unsigned char in[4][64];
        int64_t imm = 0;
        ElemCase() { memset(in, 0, sizeof in); }
    };
    inline int in_stride(const OpDef& d, int i, TypeId t) { return d.kind[i] == K_MASK ? 1 : kTypeBytes[t]; }

    // hook: is this failing lane inside an open known-finding class?  returns class name or nullptr
    typedef const char* (*KnownFn)(const Options& o, const OpDef& d, TypeId t, const Target& tg, const void* const* lane_in, int64_t imm, const void* got);
    inline KnownFn& known_fn()
    {
        static KnownFn f = nullptr;
        return f;
    }

    struct Resolved
    {
        std::vector<const Target*> tg;
        std::vector<const xsv_entry*> e;
    };
    inline Resolved resolve(const std::vector<Target>& targets, const OpDef& d, TypeId t)
    {
        Resolved r;
        for (auto& tg : targets)
        {
            const xsv_entry* e = tg.find(d.name, kTypeNames[t]);
            if (e)
            {
                r.tg.push_back(&tg);
                r.e.push_back(e);
            }
        }
        return r;
    }

    struct ExecResult
    {
        bool failed = false; // an unknown violation happened
        bool nontrivial = false;
    };

    inline Violation make_violation(Context& cx, const ElemCase& c, const Target& tg, const xsv_entry* e, int lane, const void* exp, const void* got, const std::string& why)
    {
        const OpDef& d = *c.op;
        Violation v;
        v.prop = cx.opt.prop;
        v.op = d.name;
        v.type = kTypeNames[c.type];
        v.target = tg.name;
        v.lane = lane;
        v.imm[0] = c.imm;
        for (int i = 0; i < d.arity; ++i)
        {
            v.in_hex.push_back(hex(c.in[i], (size_t)e->lanes * in_stride(d, i, c.type)));
            if (lane >= 0)
            {
                if (d.kind[i] == K_MASK)
                    v.in_lane.push_back(c.in[i][lane] ? "true" : "false");
                else
                    v.in_lane.push_back(lane_str(c.type, c.in[i] + (size_t)lane * kTypeBytes[c.type]));
            }
        }
        TypeId ot = d.out == O_BOOL ? U8 : d.out_type[c.type];
        if (exp)
            v.expected = lane_str(ot, exp);
        if (got)
            v.got = lane_str(ot, got);
        v.why = why;
        return v;
    }

    // execute one case on one resolved target; returns number of failing lanes not covered by a known class
    inline int exec_on(Context& cx, const ElemCase& c, const Target& tg, const xsv_entry* e, unsigned* cls_or, bool* lanes_differ, Violation* first_fail)
    {
        const OpDef& d = *c.op;
        TypeId t = c.type;
        const int n = e->lanes;
        const int eb = kTypeBytes[t];
        alignas(64) unsigned char out0[128], out1[128];
        memset(out0, 0xCD, sizeof out0);
        memset(out1, 0, sizeof out1);
        xsv_args a;
        for (int i = 0; i < 4; ++i)
            a.in[i] = i < d.arity ? c.in[i] : nullptr;
        a.out[0] = out0;
        a.out[1] = out1;
        a.imm[0] = c.imm;
        a.imm[1] = 0;
        cx.current_valid = true;
        cx.current.op = d.name;
        cx.current.type = kTypeNames[t];
        cx.current.target = tg.name;
        cx.current.prop = cx.opt.prop;
        cx.current.imm[0] = c.imm;
        cx.current.in_hex.clear();
        for (int i = 0; i < d.arity; ++i)
            cx.current.in_hex.push_back(hex(c.in[i], (size_t)n * in_stride(d, i, t)));
        e->fn(&a);
        cx.current_valid = false;
        memcpy(cx.last_out, out0, sizeof cx.last_out);
        cx.st.executions++;
        if (!fpenv_ok())
        {
            Violation v = make_violation(cx, c, tg, e, -1, nullptr, nullptr, "rounding mode or FTZ/DAZ changed by the call");
            fesetround(FE_TONEAREST);
            _mm_setcsr(_mm_getcsr() & ~0x8040u);
            if (first_fail)
                *first_fail = v;
            return 1;
        }
        const int ob = d.out == O_BOOL ? 1 : kTypeBytes[d.out_type[t]];
        int fails = 0;
        LaneJudge j = d.judge[t];
        unsigned char expbuf[16];
        for (int l = 0; l < n; ++l)
        {
            const void* lin[4] = { nullptr, nullptr, nullptr, nullptr };
            for (int i = 0; i < d.arity; ++i)
                lin[i] = c.in[i] + (size_t)l * in_stride(d, i, t);
            unsigned cls = 0;
            std::string why;
            int rc = j(lin, c.imm, out0 + (size_t)l * ob, expbuf, &cls, &why);
            if (rc == J_SKIP)
            {
                cx.st.skipped_lanes++;
                continue;
            }
            cx.st.lane_checks++;
            *cls_or |= cls;
            if (l > 0 && !*lanes_differ)
                for (int i = 0; i < d.arity; ++i)
                    if (memcmp(c.in[i], c.in[i] + (size_t)l * in_stride(d, i, t), in_stride(d, i, t)) != 0)
                        *lanes_differ = true;
            if (rc == J_OK && d.out == O_BOOL)
            {
                // the three read-outs of a batch_bool must agree: bytes, mask(), get(i)
                uint64_t q[4];
                memcpy(q, out1, sizeof q);
                bool b = out0[l] != 0;
                bool viamask = n <= 64 ? ((q[0] >> l) & 1) != 0 : b;
                bool viaget = ((q[1] >> l) & 1) != 0;
                if (out0[l] > 1 || viamask != b || viaget != b)
                {
                    rc = J_FAIL;
                    why = "batch_bool read-outs disagree: store=" + std::to_string((int)out0[l]) + " mask-bit=" + std::to_string((int)viamask) + " get=" + std::to_string((int)viaget);
                }
            }
            if (rc == J_FAIL)
            {
                const char* k = known_fn() ? known_fn()(cx.opt, d, t, tg, lin, c.imm, out0 + (size_t)l * ob) : nullptr;
                if (k)
                {
                    cx.st.known_hits++;
                    cx.st.known_by_class[k]++;
                    if (!cx.known_witness.count(k))
                        cx.known_witness[k] = make_violation(cx, c, tg, e, l, expbuf, out0 + (size_t)l * ob, why);
                    continue;
                }
                if (!fails && first_fail)
                    *first_fail = make_violation(cx, c, tg, e, l, expbuf, out0 + (size_t)l * ob, why.empty() ? "lane result differs from the scalar model" : why);
                fails++;
            }
        }
        if (d.out == O_BOOL && !fails)
        {
            uint64_t q[4];
            memcpy(q, out1, sizeof q);
            unsigned pop = 0;
            for (int l = 0; l < n; ++l)
                pop += out0[l] ? 1 : 0;
            unsigned flags = (pop == (unsigned)n ? 1 : 0) | (pop ? 2 : 0) | (pop == 0 ? 4 : 0);
            uint64_t full = n >= 64 ? ~0ull : ((1ull << n) - 1);
            if (q[2] != pop || q[3] != flags || (q[0] & ~full) != 0)
            {
                if (first_fail)
                    *first_fail = make_violation(cx, c, tg, e, -1, nullptr, nullptr,
                                                 "count/all/any/none/mask disagree with the stored lanes: popcount=" + std::to_string(pop) + " count()=" + std::to_string(q[2]) + " all|any<<1|none<<2=" + std::to_string(q[3]) + " mask=" + std::to_string(q[0]));
                return 1;
            }
        }
        return fails;
    }

    // execute without judging; out receives the 128-byte output image
    inline void exec_raw(Context& cx, const ElemCase& c, const Target& tg, const xsv_entry* e, unsigned char* out)
    {
        const OpDef& d = *c.op;
        alignas(64) unsigned char out0[128], out1[128];
        memset(out0, 0xCD, sizeof out0);
        memset(out1, 0, sizeof out1);
        xsv_args a;
        for (int i = 0; i < 4; ++i)
            a.in[i] = i < d.arity ? c.in[i] : nullptr;
        a.out[0] = out0;
        a.out[1] = out1;
        a.imm[0] = c.imm;
        a.imm[1] = 0;
        cx.current_valid = true;
        cx.current.op = d.name;
        cx.current.type = kTypeNames[c.type];
        cx.current.target = tg.name;
        cx.current.prop = cx.opt.prop;
        cx.current.imm[0] = c.imm;
        cx.current.in_hex.clear();
        for (int i = 0; i < d.arity; ++i)
            cx.current.in_hex.push_back(hex(c.in[i], (size_t)e->lanes * in_stride(d, i, c.type)));
        e->fn(&a);
        cx.current_valid = false;
        cx.st.executions++;
        memcpy(out, out0, 128);
    }

    // broadcast the operands of `lane` to every lane (precondition-preserving simplification)
    inline ElemCase broadcast_lane(const ElemCase& c, int lane)
    {
        ElemCase r = c;
        const OpDef& d = *c.op;
        for (int i = 0; i < d.arity; ++i)
        {
            int s = in_stride(d, i, c.type);
            for (int l = 0; l < 64 / s; ++l)
                memcpy(r.in[i] + (size_t)l * s, c.in[i] + (size_t)lane * s, s);
        }
        return r;
    }

    inline void record_sample(Context& cx, const ElemCase& c, int lanes_shown, unsigned cls)
    {
        const OpDef& d = *c.op;
        std::string g = d.name + ":" + kTypeNames[c.type];
        if (!cx.st.want_sample(g, 1))
            return;
        std::string s = "{\"op\":" + jstr(d.name) + ",\"type\":" + jstr(kTypeNames[c.type]) + ",\"imm\":" + std::to_string(c.imm) + ",\"lanes\":[";
        for (int i = 0; i < d.arity; ++i)
        {
            s += (i ? ",[" : "[");
            for (int l = 0; l < lanes_shown; ++l)
            {
                if (l)
                    s += ",";
                if (d.kind[i] == K_MASK)
                    s += c.in[i][l] ? "1" : "0";
                else
                    s += jstr(lane_str(c.type, c.in[i] + (size_t)l * kTypeBytes[c.type]));
            }
            s += "]";
        }
        s += "],\"classes\":[";
        bool first = true;
        for (int b = 0; b < 11; ++b)
            if (cls & (1u << b))
            {
                s += (first ? "" : ",") + jstr(kClassNames[b]);
                first = false;
            }
        s += "]}";
        cx.st.samples.push_back(s);
    }

    // run a case on all resolved targets.  returns true if an unknown violation was found.
    inline bool run_case(Context& cx, const ElemCase& c, const Resolved& r, bool minimize = true)
    {
        const OpDef& d = *c.op;
        cx.st.evaluations++;
        unsigned cls_all = 0;
        bool differ_all = false;
        bool failed = false;
        unsigned char first_out[16];
        for (size_t k = 0; k < r.tg.size(); ++k)
        {
            unsigned cls = 0;
            bool differ = false;
            Violation v;
            int f = exec_on(cx, c, *r.tg[k], r.e[k], &cls, &differ, &v);
            if (d.agree && !f)
            {
                const int ob = d.out == O_BOOL ? 1 : kTypeBytes[d.out_type[c.type]];
                if (k == 0)
                    memcpy(first_out, cx.last_out, 16);
                else if (memcmp(first_out, cx.last_out, ob) != 0)
                {
                    // NaN results agree with each other whatever their payload
                    bool bothnan = false;
                    if (c.type == F32) { float x, y; memcpy(&x, first_out, 4); memcpy(&y, cx.last_out, 4); bothnan = x != x && y != y; }
                    if (c.type == F64) { double x, y; memcpy(&x, first_out, 8); memcpy(&y, cx.last_out, 8); bothnan = x != x && y != y; }
                    if (!bothnan)
                    {
                        f = 1;
                        v = make_violation(cx, c, *r.tg[k], r.e[k], 0, first_out, cx.last_out, "lane 0 of the batch result differs from the scalar overload's result (" + r.tg[0]->name + ")");
                    }
                }
            }
            cls_all |= cls;
            differ_all |= differ;
            if (f)
            {
                failed = true;
                if (minimize && v.lane >= 0)
                {
                    ElemCase b = broadcast_lane(c, v.lane);
                    unsigned c2 = 0;
                    bool d2 = false;
                    Violation v2;
                    if (exec_on(cx, b, *r.tg[k], r.e[k], &c2, &d2, &v2))
                    {
                        v2.why += " [reduced: failing lane's operands broadcast to all lanes]";
                        v = v2;
                    }
                    else
                        v.why += " [depends on lane position or neighbours: broadcast of the lane's operands passes]";
                }
                cx.add_violation(v, true);
            }
        }
        // classification
        for (int b = 0; b < 11; ++b)
            if (cls_all & (1u << b))
                cx.st.classes[kClassNames[b]]++;
        unsigned nt = cls_all & ~(unsigned)(CL_TRUE | CL_FALSE) & 0xfff;
        if (((cls_all >> 12) & 15) == 15)
            nt |= CL_TRUE; // mask pairs: all four (p,q) truth combinations present in the batch
        if ((cls_all & CL_TRUE) && (cls_all & CL_FALSE))
            nt |= CL_TRUE;
        if (nt && differ_all)
        {
            uint64_t h = hash_str(d.name, c.type * 1315423911u + (uint64_t)c.imm);
            for (int i = 0; i < d.arity; ++i)
                h = hash_bytes(c.in[i], 64, h);
            cx.st.note_distinct(h);
            record_sample(cx, c, 4, cls_all);
        }
        else
            cx.st.classes["trivial"]++;
        return failed;
    }

    // ------------------------------------------------------------------ replay
    // tokens: op type target imm0 in0hex [in1hex ...]
    inline int replay_case(Context& cx, const std::vector<Target>& targets, const std::vector<std::string>& tok)
    {
        if (tok.size() < 5)
        {
            fprintf(stderr, "replay: need op type target imm in0...\n");
            return 2;
        }
        const OpDef* d = find_op(tok[0], type_from_name(tok[1]), cx.opt.prop);
        if (!d)
        {
            fprintf(stderr, "replay: unknown op %s\n", tok[0].c_str());
            return 2;
        }
        ElemCase c;
        c.op = d;
        c.type = type_from_name(tok[1]);
        c.imm = atoll(tok[3].c_str());
        for (size_t i = 4; i < tok.size() && i - 4 < 4; ++i)
        {
            auto b = unhex(tok[i]);
            memcpy(c.in[i - 4], b.data(), std::min<size_t>(b.size(), 64));
        }
        int bad = 0, ran = 0;
        for (auto& tg : targets)
        {
            if (tok[2] != "*" && tok[2] != tg.name)
                continue;
            const xsv_entry* e = tg.find(d->name, kTypeNames[c.type]);
            if (!e || !d->judge[c.type])
                continue;
            ++ran;
            unsigned cls = 0;
            bool differ = false;
            Violation v;
            int f = exec_on(cx, c, tg, e, &cls, &differ, &v);
            if (f)
            {
                printf("REPLAY-FAIL %s\n", v.to_json().c_str());
                bad++;
            }
        }
        if (!ran)
        {
            printf("REPLAY-SKIP no such target/op\n");
            return 0;
        }
        if (!bad)
            printf("REPLAY-PASS (known_hits=%llu)\n", (unsigned long long)cx.st.known_hits);
        return bad ? 1 : 0;
    }
}
#endif
