// Open known-finding classes (predicates) for the element-wise driver; see known_findings.json.
// A class is only active when the runner passes its name in --known (i.e. the finding is "open").
// Inside a class the lane is still held to a regression bound where one is meaningful.
#ifndef XSV_KNOWN_HPP
#define XSV_KNOWN_HPP
#include "elem.hpp"
#include <algorithm>
#include <cmath>
#include "int_model.hpp"
namespace xsv
{
    template <class T>
    inline bool rot_legacy_matches(bool left, const void* x_, uint64_t n, const void* got_)
    {
        // D1: generic rotl/rotr use N = numeric_limits<T>::digits (bits-1 for signed T) and an arithmetic >>
        T x, got;
        memcpy(&x, x_, sizeof(T));
        memcpy(&got, got_, sizeof(T));
        const unsigned N = sizeof(T) * 8 - 1;
        if (n > N)
            return false;
        T legacy = left ? (T)(model::shl<T>(x, (unsigned)n) | model::shr<T>(x, (unsigned)(N - n)))
                        : (T)(model::shr<T>(x, (unsigned)n) | model::shl<T>(x, (unsigned)(N - n)));
        return legacy == got;
    }
    inline const char* elem_known(const Options& o, const OpDef& d, TypeId t, const Target& tg, const void* const* in, int64_t imm, const void* got)
    {
        (void)tg;
        if (o.known.count("rot_signed_legacy") && (t == I8 || t == I16 || t == I32 || t == I64)
            && (d.name == "rotl_s" || d.name == "rotr_s" || d.name == "rotl_v" || d.name == "rotr_v"))
        {
            const bool left = d.name[3] == 'l';
            uint64_t n = (uint64_t)imm;
            if (d.name[5] == 'v')
            {
                n = 0;
                memcpy(&n, in[1], kTypeBytes[t]);
            }
            bool ok = false;
            switch (t)
            {
            case I8: ok = rot_legacy_matches<int8_t>(left, in[0], n, got); break;
            case I16: ok = rot_legacy_matches<int16_t>(left, in[0], n, got); break;
            case I32: ok = rot_legacy_matches<int32_t>(left, in[0], n, got); break;
            default: ok = rot_legacy_matches<int64_t>(left, in[0], n, got); break;
            }
            if (ok)
                return "rot_signed_legacy";
        }
        // D33: the generic ldexp multiplies by a power of two assembled in the exponent field, (e + bias) << mantissa bits,
        // which is 2^e only for emin <= e <= emax; the avx512 double kernel narrows the 64-bit exponent to 32 bits first.
        // Inside the class the lane must equal exactly that legacy value.
        if (o.known.count("ldexp_exponent_range") && d.name == "ldexp" && (t == F32 || t == F64))
        {
            bool ok = false;
            if (t == F32)
            {
                float x, g;
                int32_t e;
                memcpy(&x, in[0], 4);
                memcpy(&e, in[1], 4);
                memcpy(&g, got, 4);
                if (e < model::fpt<float>::emin || e > model::fpt<float>::emax)
                {
                    const uint32_t sb = (uint32_t)((uint32_t)e + 127u) << 23;
                    const float legacy = x * model::from_bits<float>(sb);
                    ok = model::same(g, legacy);
                }
            }
            else
            {
                double x, g;
                int64_t e;
                memcpy(&x, in[0], 8);
                memcpy(&e, in[1], 8);
                memcpy(&g, got, 8);
                if (e < model::fpt<double>::emin || e > model::fpt<double>::emax)
                {
                    const uint64_t sb = (uint64_t)((uint64_t)e + 1023u) << 52;
                    const double legacy = x * model::from_bits<double>(sb);
                    ok = model::same(g, legacy);
                    if (!ok && e != (int64_t)(int32_t)e)
                        ok = model::same(g, std::ldexp(x, (int)std::max<int64_t>(-100000, std::min<int64_t>(100000, (int64_t)(int32_t)e)))); // narrowed exponent
                }
            }
            if (ok)
                return "ldexp_exponent_range";
        }
        return nullptr;
    }
    inline void install_known(const Options&) { known_fn() = elem_known; }
    // C17: which ops have a scalar overload claimed by the property
    inline bool scalar_op_claimed(const OpDef& d)
    {
        return d.prop == "C01" || d.prop == "C02" || d.prop == "C03" || d.prop == "C06" || d.prop == "C07" || d.prop == "C08" || d.prop == "C17";
    }
}
#endif
