// Open known-finding classes (predicates) for the element-wise driver; see known_findings.json.
// A class is only active when the runner passes its name in --known (i.e. the finding is "open").
// Inside a class the lane is still held to a regression bound where one is meaningful.
#ifndef XSV_KNOWN_HPP
#define XSV_KNOWN_HPP
#include "elem.hpp"
#include "int_model.hpp"
namespace xsv
{
    template <class T>
    inline bool rot_legacy_matches(bool left, const void* x_, uint64_t n, const void* got_)
    {
        // D1: generic rotl/rotr use N = numeric_limits<T>::digits (bits-1 for signed T) and an arithmetic >>
        T x, got;
        memcpy(&x, x_, sizeof(T));
        memcpy(&got, got_, sizeof(T));
        const unsigned N = sizeof(T) * 8 - 1;
        if (n > N)
            return false;
        T legacy = left ? (T)(model::shl<T>(x, (unsigned)n) | model::shr<T>(x, (unsigned)(N - n)))
                        : (T)(model::shr<T>(x, (unsigned)n) | model::shl<T>(x, (unsigned)(N - n)));
        return legacy == got;
    }
    inline const char* elem_known(const Options& o, const OpDef& d, TypeId t, const Target& tg, const void* const* in, int64_t imm, const void* got)
    {
        (void)tg;
        if (o.known.count("rot_signed_legacy") && (t == I8 || t == I16 || t == I32 || t == I64)
            && (d.name == "rotl_s" || d.name == "rotr_s" || d.name == "rotl_v" || d.name == "rotr_v"))
        {
            const bool left = d.name[3] == 'l';
            uint64_t n = (uint64_t)imm;
            if (d.name[5] == 'v')
            {
                n = 0;
                memcpy(&n, in[1], kTypeBytes[t]);
            }
            bool ok = false;
            switch (t)
            {
            case I8: ok = rot_legacy_matches<int8_t>(left, in[0], n, got); break;
            case I16: ok = rot_legacy_matches<int16_t>(left, in[0], n, got); break;
            case I32: ok = rot_legacy_matches<int32_t>(left, in[0], n, got); break;
            default: ok = rot_legacy_matches<int64_t>(left, in[0], n, got); break;
            }
            if (ok)
                return "rot_signed_legacy";
        }
        return nullptr;
    }
    inline void install_known(const Options&) { known_fn() = elem_known; }
    // C17: which ops have a scalar overload claimed by the property
    inline bool scalar_op_claimed(const OpDef& d)
    {
        return d.prop == "C01" || d.prop == "C02" || d.prop == "C03" || d.prop == "C06" || d.prop == "C07" || d.prop == "C08" || d.prop == "C17";
    }
}
#endif
