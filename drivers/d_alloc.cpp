// C18: aligned_allocator returns aligned, sufficiently large, releasable storage; alignment helpers.
// Stateful model-based test: a generated history of allocate / write / verify / deallocate commands is applied
// to the allocator and to an in-memory model of the live blocks; invariants run after every command.
// Built with AddressSanitizer (heap overflow / double free / leak visible) in a second variant.
#include <xsimd/xsimd.hpp>

#include <rapidcheck.h>

#include <cerrno>
#include <malloc.h>
#include <new>

#if defined(__SANITIZE_ADDRESS__)
#include <sanitizer/lsan_interface.h>
#define XSV_HAVE_LSAN 1
#else
#define XSV_HAVE_LSAN 0
#endif

#include "xsv.hpp"

using namespace xsv;

// ---------------------------------------------------------------- which blocks does the allocator still hold?
// Plain build: posix_memalign and free (the two libc entry points aligned_allocator uses on this platform) are interposed
// and forwarded to glibc's __libc_* entry points; every block obtained through posix_memalign is remembered until it is
// freed.  After a history has passed each of its blocks to deallocate, the number of remembered blocks must be what it was
// before the history.  (The AddressSanitizer build cannot interpose - it has its own interceptors - and asks LeakSanitizer.)
#if !XSV_HAVE_LSAN
extern "C" void* __libc_memalign(size_t, size_t);
extern "C" void __libc_free(void*);
namespace
{
    const size_t kTrack = 1u << 15;
    void* g_tracked[kTrack];
    size_t g_ntracked = 0;
    inline size_t th(void* p) { return (size_t)(((uintptr_t)p >> 3) * 0x9e3779b97f4a7c15ull >> 40) & (kTrack - 1); }
    inline void track_add(void* p)
    {
        if (g_ntracked * 2 >= kTrack)
            return; // table half full: stop remembering rather than degrade (the count check then sees fewer, never more)
        size_t i = th(p);
        while (g_tracked[i] && g_tracked[i] != (void*)1)
            i = (i + 1) & (kTrack - 1);
        g_tracked[i] = p;
        ++g_ntracked;
    }
    inline void track_remove(void* p)
    {
        size_t i = th(p);
        for (size_t k = 0; k < kTrack && g_tracked[i]; ++k, i = (i + 1) & (kTrack - 1))
            if (g_tracked[i] == p)
            {
                g_tracked[i] = (void*)1; // tombstone
                --g_ntracked;
                return;
            }
    }
}
extern "C" int posix_memalign(void** pp, size_t al, size_t sz)
{
    if (al < sizeof(void*) || (al & (al - 1)))
        return EINVAL;
    void* p = __libc_memalign(al, sz);
    if (!p)
        return ENOMEM;
    *pp = p;
    track_add(p);
    return 0;
}
extern "C" void free(void* p)
{
    if (p)
        track_remove(p);
    __libc_free(p);
}
static size_t held_blocks() { return g_ntracked; }
#else
static size_t held_blocks() { return 0; }
#endif

struct S24
{
    char c[24];
};
struct S3
{
    char c[3];
};

struct Block
{
    void* p;
    size_t n, esz, align;
    int inst;
    uint64_t fill;
};

struct Inst
{
    const char* tname;
    size_t esz, align;
    void* (*alloc)(size_t n, bool* threw);
    void (*dealloc)(void* p, size_t n);
    size_t (*max_size)();
};
template <class T, size_t A>
static Inst make_inst(const char* tn)
{
    return Inst { tn, sizeof(T), A,
                  [](size_t n, bool* threw) -> void* {
                      xsimd::aligned_allocator<T, A> a;
                      *threw = false;
                      try
                      {
                          return a.allocate(n);
                      }
                      catch (const std::bad_alloc&)
                      {
                          *threw = true;
                          return nullptr;
                      }
                  },
                  [](void* p, size_t n) { xsimd::aligned_allocator<T, A> a; a.deallocate((T*)p, n); },
                  []() -> size_t { return xsimd::aligned_allocator<T, A>().max_size(); } };
}
#define ALIGNS(T, N) make_inst<T, 8>(N), make_inst<T, 16>(N), make_inst<T, 32>(N), make_inst<T, 64>(N), make_inst<T, 128>(N), make_inst<T, 256>(N), make_inst<T, 512>(N), make_inst<T, 1024>(N), make_inst<T, 2048>(N), make_inst<T, 4096>(N)
static const Inst kInst[] = { ALIGNS(char, "char"), ALIGNS(short, "short"), ALIGNS(int32_t, "int32_t"), ALIGNS(double, "double"), ALIGNS(S24, "struct24"), ALIGNS(S3, "struct3"), ALIGNS(long double, "long double") };
static const int kNInst = sizeof(kInst) / sizeof(kInst[0]);

struct Cmd
{
    int kind; // 0 alloc 1 dealloc 2 write 3 verify
    int inst;
    uint64_t n; // alloc: element count ; others: block selector
    uint64_t fill;
};
namespace rc
{
    template <>
    struct Arbitrary<Cmd>
    {
        static Gen<Cmd> arbitrary()
        {
            auto ng = gen::resize(100, gen::weightedOneOf<uint64_t>({
                { 4, gen::inRange<uint64_t>(0, 65) },
                { 3, gen::map(gen::tuple(gen::inRange<int>(0, 15), gen::inRange<int>(-1, 2)), [](std::tuple<int, int> t) { return (uint64_t)((int64_t)(1ull << std::get<0>(t)) + std::get<1>(t)); }) },
                { 2, gen::map(gen::tuple(gen::inRange<int>(1, 9), gen::inRange<int>(-1, 2)), [](std::tuple<int, int> t) { return (uint64_t)((int64_t)4096 * std::get<0>(t) + std::get<1>(t)); }) },
            }));
            return gen::build<Cmd>(gen::set(&Cmd::kind, gen::resize(100, gen::weightedElement<int>({ { 5, 0 }, { 3, 1 }, { 2, 2 }, { 2, 3 } }))),
                                   gen::set(&Cmd::inst, gen::resize(100, gen::inRange<int>(0, kNInst))),
                                   gen::set(&Cmd::n, ng),
                                   gen::set(&Cmd::fill, gen::arbitrary<uint64_t>()));
        }
    };
}
static void show_cmd(const Cmd& c, std::ostream& os)
{
    {
        static const char* k[] = { "alloc", "dealloc", "write", "verify" };
        os << k[c.kind] << "(" << (c.kind == 0 ? kInst[c.inst].tname : "#") << "/" << (c.kind == 0 ? kInst[c.inst].align : 0) << ", " << c.n << ")";
    }
}
namespace rc
{
    void showValue(const Cmd& c, std::ostream& os) { show_cmd(c, os); }
}

static unsigned char pat(uint64_t fill, size_t i) { return (unsigned char)(mix64(fill + i / 8) >> ((i % 8) * 8)); }
static void fill_block(void* p, size_t bytes, uint64_t fill)
{
    unsigned char* q = (unsigned char*)p;
    size_t i = 0;
    for (; i + 8 <= bytes; i += 8)
    {
        uint64_t w = mix64(fill + i / 8);
        memcpy(q + i, &w, 8);
    }
    for (; i < bytes; ++i)
        q[i] = pat(fill, i);
}
static bool check_block(const void* p, size_t bytes, uint64_t fill)
{
    const unsigned char* q = (const unsigned char*)p;
    size_t i = 0;
    for (; i + 8 <= bytes; i += 8)
    {
        uint64_t w = mix64(fill + i / 8);
        if (memcmp(q + i, &w, 8))
            return false;
    }
    for (; i < bytes; ++i)
        if (q[i] != pat(fill, i))
            return false;
    return true;
}

static std::string history_str(const std::vector<Cmd>& h)
{
    std::ostringstream os;
    for (size_t i = 0; i < h.size(); ++i)
    {
        if (i)
            os << "; ";
        show_cmd(h[i], os);
    }
    return os.str();
}
static std::string history_tokens(const std::vector<Cmd>& h)
{
    std::string s;
    for (auto& c : h)
        s += std::to_string(c.kind) + ":" + std::to_string(c.inst) + ":" + std::to_string(c.n) + ":" + std::to_string(c.fill) + ",";
    return s;
}

// runs a history; returns "" if every invariant held, else the failure description
static std::string run_history(Context& cx, const std::vector<Cmd>& h, bool* nontrivial)
{
    const size_t held_before = held_blocks();
    std::vector<Block> live;
    std::string fail;
    size_t max_live = 0;
    bool non_lifo = false, odd_size = false;
    auto verify_block = [&](const Block& b) -> bool {
        return check_block(b.p, b.n * b.esz, b.fill);
    };
    for (size_t step = 0; step < h.size() && fail.empty(); ++step)
    {
        const Cmd& c = h[step];
        cx.st.executions++;
        if (c.kind == 0)
        {
            const Inst& in = kInst[c.inst];
            bool threw = false;
            void* p = in.alloc((size_t)c.n, &threw);
            if (threw)
                continue; // allowed: failure is reported by throwing
            if (!p)
            {
                if (c.n == 0)
                    continue; // a null pointer for n = 0 is fine (no storage requested)
                fail = "allocate returned a null pointer without throwing std::bad_alloc";
                break;
            }
            if (((uintptr_t)p % in.align) != 0)
            {
                fail = "pointer is not a multiple of Align=" + std::to_string(in.align);
                in.dealloc(p, (size_t)c.n);
                break;
            }
            if (malloc_usable_size(p) < (size_t)c.n * in.esz)
            {
                // what the C library actually reserved for this block (glibc; under AddressSanitizer: the requested size)
                fail = "the block holds " + std::to_string(malloc_usable_size(p)) + " bytes, fewer than n*sizeof(T) = " + std::to_string((size_t)c.n * in.esz);
                in.dealloc(p, (size_t)c.n);
                break;
            }
            Block b { p, (size_t)c.n, in.esz, in.align, c.inst, c.fill };
            // all n*sizeof(T) bytes must be writable (ASan variant: a short block is a heap-buffer-overflow here)
            fill_block(p, b.n * b.esz, b.fill);
            // disjoint from every live block
            for (auto& o : live)
            {
                uintptr_t a0 = (uintptr_t)p, a1 = a0 + b.n * b.esz, b0 = (uintptr_t)o.p, b1 = b0 + o.n * o.esz;
                if (a0 < b1 && b0 < a1 && b.n && o.n)
                    fail = "new block overlaps a live block";
            }
            if ((b.n * b.esz) % in.align)
                odd_size = true;
            live.push_back(b);
            max_live = std::max(max_live, live.size());
        }
        else if (live.empty())
            continue;
        else
        {
            size_t k = (size_t)(c.n % live.size());
            if (c.kind == 1)
            {
                if (!verify_block(live[k]))
                    fail = "contents of a live block changed before its deallocation";
                if (k + 1 != live.size())
                    non_lifo = true;
                kInst[live[k].inst].dealloc(live[k].p, live[k].n);
                live.erase(live.begin() + (long)k);
            }
            else if (c.kind == 2)
            {
                live[k].fill = c.fill;
                fill_block(live[k].p, live[k].n * live[k].esz, c.fill);
            }
            else if (!verify_block(live[k]))
                fail = "contents of a live block were modified by operations on other blocks";
        }
        // invariant after every command: every other live block is intact
        if (fail.empty() && (step % 4 == 3))
            for (auto& b : live)
                if (!verify_block(b))
                {
                    fail = "contents of a live block were modified by operations on other blocks";
                    break;
                }
    }
    for (auto& b : live) // every block is deallocated exactly once
    {
        if (fail.empty() && !verify_block(b))
            fail = "contents of a live block changed";
        kInst[b.inst].dealloc(b.p, b.n);
    }
    live.clear();
    if (fail.empty() && held_blocks() != held_before)
        fail = std::to_string((long long)held_blocks() - (long long)held_before) + " block(s) obtained from allocate are still held after every block of the history was passed to deallocate exactly once";
#if XSV_HAVE_LSAN
    // every block of the history has been passed to deallocate exactly once: nothing obtained through the allocator may
    // still be held (AddressSanitizer build only; LeakSanitizer scans for unreachable blocks now, not at process exit)
    if (fail.empty() && __lsan_do_recoverable_leak_check())
        fail = "a block obtained from allocate is still held after it was passed to deallocate (LeakSanitizer reports a leak at the end of the history)";
#endif
    *nontrivial = max_live >= 2 && (non_lifo || odd_size);
    return fail;
}

static Violation mkviol(const std::string& op, const std::string& why, const std::string& tokens, const std::string& human)
{
    Violation v;
    v.kind = "alloc";
    v.prop = "C18";
    v.op = op;
    v.type = "history";
    v.target = "native";
    v.why = why + " | " + human;
    v.in_hex.push_back(tokens);
    return v;
}

static std::vector<Cmd> parse_tokens(const std::string& s)
{
    std::vector<Cmd> h;
    std::stringstream ss(s);
    std::string item;
    while (std::getline(ss, item, ','))
    {
        if (item.empty())
            continue;
        Cmd c;
        unsigned long long n, f;
        if (sscanf(item.c_str(), "%d:%d:%llu:%llu", &c.kind, &c.inst, &n, &f) == 4)
        {
            c.n = n;
            c.fill = f;
            h.push_back(c);
        }
    }
    return h;
}

// ---------------------------------------------------------------- overflow rows and pure helpers
static bool overflow_rows(Context& cx)
{
    bool ok = true;
    for (int i = 0; i < kNInst; ++i)
    {
        const Inst& in = kInst[i];
        const size_t lim = SIZE_MAX / in.esz;
        std::vector<size_t> ns = { SIZE_MAX, SIZE_MAX / 2 + 1, SIZE_MAX - 1 };
        if (in.esz > 1)
        {
            ns.push_back(lim + 1);
            ns.push_back(lim + 2);
            ns.push_back(lim + 17);
            ns.push_back((SIZE_MAX / 2) / in.esz * 2 + 3);
        }
        // the largest representable requests: n*sizeof(T) within Align (and a little more) of SIZE_MAX, where any rounding
        // of the byte count wraps around
        for (size_t k : { (size_t)0, (size_t)1, (size_t)2, (size_t)7, in.align - 1, in.align, in.align + 1, 2 * in.align + 3, (size_t)4096 })
            ns.push_back((SIZE_MAX - k) / in.esz);
#if !XSV_HAVE_LSAN
        // byte counts just above 2^32 (a count kept in a 32-bit variable wraps): address space only, two pages are touched
        if (i % 10 == 3 || i % 10 == 9)
            for (size_t bytes : { ((size_t)1 << 32) + 4096, ((size_t)1 << 32) + 64 * in.esz, ((size_t)1 << 33) + 48 * in.esz })
            {
                const size_t n = bytes / in.esz;
                cx.st.evaluations++;
                cx.st.executions++;
                cx.st.cls("rows_above_4GiB");
                bool threw = false;
                unsigned char* p = (unsigned char*)in.alloc(n, &threw);
                if (!p)
                    continue; // allowed when it threw; a null without throwing is reported by the other rows
                if (malloc_usable_size(p) < n * in.esz)
                {
                    cx.add_violation(mkviol("allocate_large", std::string("allocate(") + std::to_string(n) + ") of " + in.tname + " (Align " + std::to_string(in.align) + "): the block holds " + std::to_string(malloc_usable_size(p)) + " bytes, fewer than n*sizeof(T) = " + std::to_string(n * in.esz), std::to_string(i) + ":" + std::to_string(n), ""));
                    ok = false;
                }
                else
                {
                    p[0] = 1;
                    p[n * in.esz - 1] = 2; // the last byte the caller was promised
                }
                in.dealloc(p, n);
            }
#endif
        for (size_t n : ns)
        {
            cx.st.evaluations++;
            cx.st.executions++;
            const bool representable = n <= lim;
            bool threw = false;
            void* p = in.alloc(n, &threw);
            cx.st.cls(representable ? "huge_but_representable_rows" : "overflow_rows");
            cx.st.distinct.insert(hash_bytes(&n, sizeof n, (uint64_t)i * 7 + 1));
            if (p)
            {
                if (!representable)
                {
                    cx.add_violation(mkviol("allocate_overflow", std::string("allocate(") + std::to_string(n) + ") of " + in.tname + " (sizeof " + std::to_string(in.esz) + ", Align " + std::to_string(in.align) + ") returned a block although n*sizeof(T) is not representable; it must throw std::bad_alloc", std::to_string(i) + ":" + std::to_string(n), ""));
                    ok = false;
                }
                else if (n > (((size_t)1 << 60) / in.esz))
                {
                    // no block of 2^60 bytes exists in a 57-bit address space: the block cannot address n*sizeof(T) bytes
                    cx.add_violation(mkviol("allocate_overflow", std::string("allocate(") + std::to_string(n) + ") of " + in.tname + " (sizeof " + std::to_string(in.esz) + ", Align " + std::to_string(in.align) + ") returned a block for a request of more than 2^60 bytes: it cannot hold n*sizeof(T) bytes and no std::bad_alloc was thrown", std::to_string(i) + ":" + std::to_string(n), ""));
                    ok = false;
                }
                in.dealloc(p, n);
            }
            else if (!threw)
            {
                cx.add_violation(mkviol("allocate_overflow", "allocate returned null without throwing", std::to_string(i) + ":" + std::to_string(n), ""));
                ok = false;
            }
        }
        if (in.max_size() != lim)
        {
            cx.add_violation(mkviol("max_size", "max_size() != SIZE_MAX / sizeof(T)", std::to_string(i), ""));
            ok = false;
        }
    }
    if (cx.st.want_sample("overflow", 1))
        cx.st.samples.push_back("{\"overflow_rows\":\"allocate(n) for n in {SIZE_MAX, SIZE_MAX/2+1, SIZE_MAX/sizeof(T)+1, +2, +17, ...} for 7 element types x 10 alignments\"}");
    return ok;
}

template <class T>
static size_t model_offset(uintptr_t p, size_t size, size_t block)
{
    // least k <= size with (p + k*sizeof(T)) % (block*sizeof(T)) == 0, else size
    for (size_t k = 0; k <= size && k <= block; ++k)
        if ((p + k * sizeof(T)) % (block * sizeof(T)) == 0)
            return std::min(k, size);
    return size;
}
template <class T>
static bool offset_rows(Context& cx, const char* tn)
{
    bool ok = true;
    for (size_t block : { 1, 2, 4, 8, 16, 32, 64 })
        for (size_t size : { 0, 1, 2, 3, 7, 8, 9, 31, 64, 1000 })
            for (size_t res = 0; res < block * sizeof(T) * 2; ++res)
            {
                uintptr_t p = 0x10000 + res;
                if (block == 1 && (res % sizeof(T)))
                    continue; // a T* that is not a multiple of sizeof(T) with a one-element block: outside the precondition (DESIGN 6.3)
                size_t got = xsimd::get_alignment_offset((const T*)p, size, block);
                size_t exp = model_offset<T>(p, size, block);
                cx.st.evaluations++;
                cx.st.executions++;
                if (res % sizeof(T))
                    cx.st.cls("offset_rows_misaligned_element");
                else
                    cx.st.cls("offset_rows");
                cx.st.distinct.insert(hash_bytes(&res, sizeof res, block * 131 + size * 7 + sizeof(T)));
                if (got != exp)
                {
                    cx.add_violation(mkviol("get_alignment_offset", std::string("get_alignment_offset<") + tn + ">(p=0x10000+" + std::to_string(res) + ", size=" + std::to_string(size) + ", block=" + std::to_string(block) + ") = " + std::to_string(got) + ", expected " + std::to_string(exp), std::to_string(res), ""));
                    ok = false;
                }
            }
    return ok;
}

template <class A>
static bool is_aligned_rows(Context& cx)
{
    bool ok = true;
    const size_t al = A::alignment();
    if (al == 0)
        return true;
    for (uintptr_t p = 0x20000; p < 0x20000 + 4 * al + 3; ++p)
    {
        cx.st.evaluations++;
        bool got = xsimd::is_aligned<A>((const void*)p);
        if (got != (p % al == 0))
        {
            cx.add_violation(mkviol("is_aligned", std::string("is_aligned<") + A::name() + ">(" + std::to_string(p) + ") wrong", std::to_string(p), ""));
            ok = false;
        }
    }
    return ok;
}
template <class... A>
static bool is_aligned_all(Context& cx, xsimd::arch_list<A...>)
{
    bool ok = true;
    (void)std::initializer_list<int> { (ok = is_aligned_rows<A>(cx) && ok, 0)... };
    return ok;
}

template <class T1, size_t A1, class T2, size_t A2>
static bool eq_row(Context& cx)
{
    xsimd::aligned_allocator<T1, A1> a;
    xsimd::aligned_allocator<T2, A2> b;
    cx.st.evaluations++;
    bool ok = ((a == b) == (A1 == A2)) && ((a != b) == (A1 != A2));
    if (!ok)
        cx.add_violation(mkviol("allocator_equality", "operator==/!= disagree with equality of the alignments " + std::to_string(A1) + " vs " + std::to_string(A2), "", ""));
    return ok;
}

// default_allocator<T, A> (= aligned_allocator<T, A::alignment()>) for every architecture of the build's supported list:
// its blocks must be usable by load_aligned / store_aligned of A, i.e. aligned to the size of A's register.  The pointer is
// inspected first; the aligned access is only executed when the pointer is legal (a fault would hide the cause).
template <class A>
static bool arch_allocator_row(Context& cx)
{
    bool ok = true;
    using B = xsimd::batch<float, A>;
    xsimd::default_allocator<float, A> al;
    void* keep[24] = {};
    size_t keepn[24] = {};
    for (int k = 0; k < 24 && ok; ++k)
    {
        const size_t n = B::size * (size_t)(1 + k % 3) + (size_t)(k % 5);
        float* p = al.allocate(n);
        keep[k] = p;
        keepn[k] = n;
        cx.st.evaluations++;
        if (A::requires_alignment() && ((uintptr_t)p % sizeof(B)) != 0)
        {
            cx.add_violation(mkviol("default_allocator", std::string("default_allocator<float, ") + A::name() + "> (alignment " + std::to_string(A::alignment()) + ") returned " + std::to_string((uintptr_t)p % sizeof(B)) + " mod " + std::to_string(sizeof(B)) + ": load_aligned/store_aligned of this architecture need a multiple of the register size", A::name(), ""));
            ok = false;
            continue;
        }
        for (size_t i = 0; i < B::size; ++i)
            p[i] = (float)i;
        B b = B::load_aligned(p);
        b.store_aligned(p);
    }
    for (int k = 0; k < 24; ++k)
        if (keep[k])
            al.deallocate((float*)keep[k], keepn[k]);
    return ok;
}
template <class... A>
static bool arch_allocator_all(Context& cx, xsimd::arch_list<A...>)
{
    bool ok = true;
    (void)std::initializer_list<int> { (ok = arch_allocator_row<A>(cx) && ok, 0)... };
    return ok;
}

static bool default_alignment_row(Context& cx)
{
    // the default allocator alignment satisfies load_aligned/store_aligned of the default architecture
    using A = xsimd::default_arch;
    bool ok = true;
    cx.st.evaluations++;
    xsimd::aligned_allocator<float> al;
    static_assert(xsimd::aligned_allocator<float>::alignment >= A::alignment(), "default allocator alignment");
    for (size_t n : { 1, 3, 16, 17, 1000 })
    {
        float* p = al.allocate(n + xsimd::batch<float>::size);
        if (!xsimd::is_aligned<A>(p))
        {
            cx.add_violation(mkviol("default_alignment", "default aligned_allocator returned a pointer that is_aligned<default_arch> rejects", "", ""));
            ok = false;
        }
        for (size_t i = 0; i < xsimd::batch<float>::size; ++i)
            p[i] = (float)i;
        auto b = xsimd::batch<float>::load_aligned(p); // faults / asserts if the alignment were insufficient
        b.store_aligned(p);
        al.deallocate(p, n + xsimd::batch<float>::size);
    }
    return ok;
}

int main(int argc, char** argv)
{
    Context cx;
    cx.opt = parse_options(argc, argv);
    g_ctx() = &cx;
    install_crash_handlers();

    if (!cx.opt.replay.empty())
    {
        const auto& tok = cx.opt.replay; // op type target imm tokens
        bool ok = true;
        if (tok[0] == "history" && tok.size() > 4)
        {
            bool nt;
            auto h = parse_tokens(tok[4]);
            std::string f = run_history(cx, h, &nt);
            ok = f.empty();
            if (!ok)
                cx.add_violation(mkviol("history", f, tok[4], history_str(h)));
        }
        else
        {
            ok = overflow_rows(cx) && offset_rows<float>(cx, "float") && offset_rows<double>(cx, "double") && offset_rows<int16_t>(cx, "int16_t") && offset_rows<char>(cx, "char");
            ok = offset_rows<std::complex<float>>(cx, "complex<float>") && offset_rows<std::complex<double>>(cx, "complex<double>") && offset_rows<long double>(cx, "long double") && ok;
            ok = is_aligned_all(cx, xsimd::all_x86_architectures {}) && ok;
            ok = is_aligned_all(cx, xsimd::arch_list<xsimd::emulated<128>, xsimd::emulated<256>, xsimd::emulated<512>> {}) && ok; // no alignment requirement, but alignment() == 8
            ok = default_alignment_row(cx) && ok;
            ok = arch_allocator_all(cx, xsimd::supported_architectures {}) && ok;
        }
        printf(ok ? "REPLAY-PASS\n" : "REPLAY-FAIL %s\n", ok ? "" : cx.violations[0].to_json().c_str());
        return ok ? 0 : 1;
    }

    if (cx.opt.worker == 0)
    {
        overflow_rows(cx);
        offset_rows<float>(cx, "float");
        offset_rows<double>(cx, "double");
        offset_rows<int16_t>(cx, "int16_t");
        offset_rows<char>(cx, "char");
        // element types whose alignment is smaller than their size (sizes are powers of two: the helper is documented for SIMD element types)
        offset_rows<std::complex<float>>(cx, "complex<float>");
        offset_rows<std::complex<double>>(cx, "complex<double>");
        offset_rows<long double>(cx, "long double");
        is_aligned_all(cx, xsimd::all_x86_architectures {});
        is_aligned_all(cx, xsimd::arch_list<xsimd::emulated<128>, xsimd::emulated<256>, xsimd::emulated<512>> {});
        default_alignment_row(cx);
        arch_allocator_all(cx, xsimd::supported_architectures {});
        eq_row<char, 16, double, 16>(cx);
        eq_row<char, 16, char, 32>(cx);
        eq_row<float, 64, int, 64>(cx);
        eq_row<float, 4096, S24, 8>(cx);
        eq_row<S3, 8, S3, 8>(cx);
        eq_row<double, 32, double, 64>(cx);
    }
    // histories
    rc::detail::TestParams params = rc::detail::configuration().testParams;
    params.maxSuccess = (int)std::max<long>(1, cx.opt.budget);
    rc::detail::TestMetadata md;
    md.id = "allocator histories";
    auto res = rc::detail::checkTestable(
        [&](const std::vector<Cmd>& h) {
            bool nt = false;
            cx.st.evaluations++;
            std::string f = run_history(cx, h, &nt);
            cx.st.cls(nt ? "history_nontrivial" : "trivial");
            cx.st.classes["history_commands"] += h.size();
            if (nt)
            {
                std::string tk = history_tokens(h);
                cx.st.note_distinct(hash_str(tk));
                if (cx.st.want_sample("history", 6))
                    cx.st.samples.push_back("{\"history\":" + jstr(history_str(h)) + "}");
            }
            if (!f.empty())
                cx.add_violation(mkviol("history", f, history_tokens(h), history_str(h)), true);
            RC_ASSERT(f.empty());
        },
        md, params);
    (void)res;
    cx.write_out();
    return cx.violations.empty() ? 0 : 1;
}
