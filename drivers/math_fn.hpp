// Elementary-function table: fast references (glibc double for float32, long double for double), MPFR
// arbiter, frozen bounds of DESIGN.md section 8, domains, symmetry flags, switch points.
#ifndef XSV_MATH_FN_HPP
#define XSV_MATH_FN_HPP
#include <gmp.h>
#include <mpfr.h>

#include <cfloat>
#include <cmath>
#include <cstring>
#include <string>
#include <vector>

namespace mfn
{
    typedef long double ld;
    enum
    {
        ODD = 1,
        EVEN = 2,
        LOOPS = 4 // contains a data-dependent loop (C14 sweeps it exhaustively)
    };
    struct Fn
    {
        const char* name;
        int arity;
        double (*r32)(double, double);
        ld (*r64)(ld, ld);
        void (*mp)(mpfr_t, mpfr_t, mpfr_t);
        double bound32, bound64;
        int flags;
        std::vector<double> points; // algorithm switch points / thresholds (dense windows, companion sides)
        double core_lo, core_hi; // core interval for uniform sampling
    };

#define R1(NAME, F) \
    static double NAME##_d(double x, double) { return F(x); } \
    static ld NAME##_l(ld x, ld) { return F##l(x); }
    R1(exp, exp)
    R1(exp2, exp2) R1(expm1, expm1) R1(log, log) R1(log2, log2) R1(log10, log10) R1(log1p, log1p) R1(sin, sin) R1(cos, cos) R1(tan, tan) R1(asin, asin)
        R1(acos, acos) R1(atan, atan) R1(sinh, sinh) R1(cosh, cosh) R1(tanh, tanh) R1(asinh, asinh) R1(acosh, acosh) R1(atanh, atanh) R1(cbrt, cbrt) R1(erf, erf)
            R1(erfc, erfc) R1(tgamma, tgamma) R1(lgamma, lgamma) R1(sqrt, sqrt) static double exp10_d(double x, double) { return ::exp10(x); }
    static ld exp10_l(ld x, ld) { return ::exp10l(x); }
    static double pow_d(double x, double y) { return ::pow(x, y); }
    static ld pow_l(ld x, ld y) { return ::powl(x, y); }
    static double atan2_d(double x, double y) { return ::atan2(x, y); }
    static ld atan2_l(ld x, ld y) { return ::atan2l(x, y); }
    static double hypot_d(double x, double y) { return ::hypot(x, y); }
    static ld hypot_l(ld x, ld y) { return ::hypotl(x, y); }

#define M1(NAME, F) \
    static void NAME##_m(mpfr_t r, mpfr_t a, mpfr_t) { F(r, a, MPFR_RNDN); }
    M1(exp, mpfr_exp)
    M1(exp2, mpfr_exp2) M1(exp10, mpfr_exp10) M1(expm1, mpfr_expm1) M1(log, mpfr_log) M1(log2, mpfr_log2) M1(log10, mpfr_log10) M1(log1p, mpfr_log1p) M1(sin, mpfr_sin) M1(cos, mpfr_cos)
        M1(tan, mpfr_tan) M1(asin, mpfr_asin) M1(acos, mpfr_acos) M1(atan, mpfr_atan) M1(sinh, mpfr_sinh) M1(cosh, mpfr_cosh) M1(tanh, mpfr_tanh) M1(asinh, mpfr_asinh) M1(acosh, mpfr_acosh)
            M1(atanh, mpfr_atanh) M1(cbrt, mpfr_cbrt) M1(erf, mpfr_erf) M1(erfc, mpfr_erfc) M1(tgamma, mpfr_gamma) M1(sqrt, mpfr_sqrt) static void lgamma_m(mpfr_t r, mpfr_t a, mpfr_t)
    {
        int sg;
        mpfr_lgamma(r, &sg, a, MPFR_RNDN);
    }
    static void pow_m(mpfr_t r, mpfr_t a, mpfr_t b) { mpfr_pow(r, a, b, MPFR_RNDN); }
    static void atan2_m(mpfr_t r, mpfr_t a, mpfr_t b) { mpfr_atan2(r, a, b, MPFR_RNDN); }
    static void hypot_m(mpfr_t r, mpfr_t a, mpfr_t b) { mpfr_hypot(r, a, b, MPFR_RNDN); }

    static const double PI = 3.14159265358979323846;

    inline const std::vector<Fn>& table()
    {
        static const std::vector<Fn> t = {
            // name ar r32 r64 mp  b32  b64 flags  points  core
            { "sqrt", 1, sqrt_d, sqrt_l, sqrt_m, 0.5, 0.5, 0, { 1, 4 }, 0, 100 },
            { "exp", 1, exp_d, exp_l, exp_m, 2.0, 1.5, 0, { 0, 88.3762626647949, -87.3365447505531, -103.972, 709.78271289338397, -708.3964185322641, -745.13, 0.34657, 1.0397 }, -20, 20 },
            { "exp2", 1, exp2_d, exp2_l, exp2_m, 2.0, 2.0, 0, { 0, 127, 128, -126, -149, 1023, 1024, -1022, -1074, 0.5, -0.5 }, -30, 30 },
            { "exp10", 1, exp10_d, exp10_l, exp10_m, 2.0, 2.5, 0, { 0, 38.2308, -37.9298, -44.85, 308.2547, -307.6527, -323.3, 0.1505 }, -10, 10 },
            { "expm1", 1, expm1_d, expm1_l, expm1_m, 2.5, 2.5, 0, { 0, 88.3762626647949, -17.32868, -15.942, 709.78271289338397, -37.42995, 0.34657, -0.34657, 1.0397 }, -20, 20 },
            { "log", 1, log_d, log_l, log_m, 1.5, 1.5, 0, { 1, 0.70710678, 1.41421356, 2, 0.5 }, 0.01, 100 },
            { "log2", 1, log2_d, log2_l, log2_m, 2.5, 1.5, 0, { 1, 0.70710678, 1.41421356, 2, 0.5 }, 0.01, 100 },
            { "log10", 1, log10_d, log10_l, log10_m, 1.5, 1.5, 0, { 1, 0.70710678, 1.41421356, 10, 0.1 }, 0.01, 100 },
            { "log1p", 1, log1p_d, log1p_l, log1p_m, 1.5, 1.5, 0, { 0, -0.29289, 0.41421356, -1, 1 }, -0.9, 10 },
            { "sin", 1, sin_d, sin_l, sin_m, 3.0, 3.5, ODD | LOOPS, { 0, PI / 4, PI / 2, PI, 20 * PI, 281474976710656.0, 1e18, 105414357.85197042 }, -10, 10 },
            { "cos", 1, cos_d, cos_l, cos_m, 3.0, 3.5, EVEN | LOOPS, { 0, PI / 4, PI / 2, PI, 20 * PI, 281474976710656.0, 1e18, 105414357.85197042 }, -10, 10 },
            { "tan", 1, tan_d, tan_l, tan_m, 4.5, 4.5, ODD | LOOPS, { 0, PI / 4, PI / 2, PI, 20 * PI, 281474976710656.0, 1e18, 105414357.85197042 }, -10, 10 },
            { "sincos_s", 1, sin_d, sin_l, sin_m, 3.0, 3.5, ODD | LOOPS, { 0, PI / 4, PI / 2, 20 * PI, 281474976710656.0 }, -10, 10 },
            { "sincos_c", 1, cos_d, cos_l, cos_m, 3.0, 3.5, EVEN | LOOPS, { 0, PI / 4, PI / 2, 20 * PI, 281474976710656.0 }, -10, 10 },
            { "asin", 1, asin_d, asin_l, asin_m, 3.0, 2.0, ODD, { 0, 0.5, 0.625, 1, 1e-4, 1.4901161193847656e-8 }, -1, 1 },
            { "acos", 1, acos_d, acos_l, acos_m, 2.0, 2.0, 0, { 0, 0.5, 0.625, 1, -0.5, -1 }, -1, 1 },
            { "atan", 1, atan_d, atan_l, atan_m, 3.0, 2.5, ODD, { 0, 0.41421356, 2.41421356, 1, 0.66, 1e-4 }, -10, 10 },
            { "sinh", 1, sinh_d, sinh_l, sinh_m, 3.5, 2.5, ODD, { 0, 1, 88.3762626647949, 88.029, 89.4, 709.78271289338397, 709.08, 710.47, 22 }, -20, 20 },
            { "cosh", 1, cosh_d, cosh_l, cosh_m, 3.5, 2.0, EVEN, { 0, 1, 88.3762626647949, 88.029, 89.4, 709.78271289338397, 709.08, 710.47, 22 }, -20, 20 },
            { "tanh", 1, tanh_d, tanh_l, tanh_m, 2.0, 2.0, ODD, { 0, 0.625, 9.01, 19.06, 0.549 }, -10, 10 },
            { "asinh", 1, asinh_d, asinh_l, asinh_m, 4.5, 2.5, ODD, { 0, 0.5, 2896.3, 67108864.0, 1e-4, 4096 }, -100, 100 },
            { "acosh", 1, acosh_d, acosh_l, acosh_m, 2.5, 2.5, 0, { 1, 1.0254, 2, 4194304.0, 4503599627370496.0 }, 1, 100 },
            { "atanh", 1, atanh_d, atanh_l, atanh_m, 2.5, 2.5, ODD, { 0, 0.5, 1, 1e-4, 0.23519 }, -1, 1 },
            { "cbrt", 1, cbrt_d, cbrt_l, cbrt_m, 1.5, 1.5, ODD, { 0, 1, 8, 2.89e-28 }, -100, 100 },
            { "erf", 1, erf_d, erf_l, erf_m, 3.0, 128.0, ODD, { 0, 2.0 / 3, 0.65, 2.2, 6, 4, 9.3 }, -6, 6 },
            { "erfc", 1, erfc_d, erfc_l, erfc_m, 128.0, 64.0, 0, { 0, 2.0 / 3, 0.65, 2.2, 2, 7, 10.05, 26.5, 27, -6, 9.0059 }, -6, 27 },
            { "tgamma", 1, tgamma_d, tgamma_l, tgamma_m, 16.0, 48.0, LOOPS, { 0, 1, 2, 3, -33, 33, 35.04, 171.62, 172, -170, -0.5, 10 }, -35, 36 },
            { "lgamma", 1, lgamma_d, lgamma_l, lgamma_m, 8.0, 8.0, LOOPS, { 0, 0.75, 1.25, 1.5, 2.5, 6.5, 13, -34, -33, 1, 2, -2.457, -2.747 }, -40, 40 },
            { "pow", 2, pow_d, pow_l, pow_m, 4.0, 4.0, LOOPS, { 0, 1 }, 0.01, 100 },
            { "atan2", 2, atan2_d, atan2_l, atan2_m, 3.5, 3.5, 0, { 0, 1, 0.41421356, 2.41421356 }, -10, 10 },
            { "hypot", 2, hypot_d, hypot_l, hypot_m, 2.0, 2.0, 0, { 0, 1 }, -100, 100 },
        };
        return t;
    }
    inline const Fn* find(const std::string& n)
    {
        for (auto& f : table())
            if (n == f.name)
                return &f;
        return nullptr;
    }

    // cheap classification of a table entry (avoids string comparisons in the per-lane path)
    enum Kind
    {
        K_PLAIN,
        K_POW,
        K_HYPOT,
        K_LGAMMA,
        K_TGAMMA,
        K_ERFC,
        K_TRIG,
        K_ATAN2
    };
    inline Kind kind_of(const Fn& f)
    {
        static std::vector<Kind> cache;
        if (cache.empty())
            for (auto& g : table())
            {
                std::string n = g.name;
                cache.push_back(n == "pow" ? K_POW : n == "hypot" ? K_HYPOT : n == "lgamma" ? K_LGAMMA : n == "tgamma" ? K_TGAMMA : n == "erfc" ? K_ERFC
                                                 : n == "atan2"                                                                                 ? K_ATAN2
                                                 : (n == "sin" || n == "cos" || n == "tan" || n == "sincos_s" || n == "sincos_c")             ? K_TRIG
                                                                                                                                                : K_PLAIN);
            }
        return cache[(size_t)(&f - &table()[0])];
    }

    // ulp of the exact value v for precision p (24 / 53): 2^(floor(log2|v|) - p + 1)
    inline ld ulp_of(ld v, int p)
    {
        int e;
        frexpl(fabsl(v), &e); // |v| = m 2^e, m in [0.5,1)  => floor(log2|v|) = e-1
        return ldexpl(1.0L, e - p);
    }

    // per-function accuracy bound (in ulp of the metric value) at argument (x, y); DESIGN.md section 8
    template <class T>
    inline double bound_at(const Fn& f, ld x, ld y, ld ref)
    {
        const bool f32 = sizeof(T) == 4;
        const Kind n = kind_of(f);
        if (n == K_POW)
        {
            ld t = fabsl(y * logl(fabsl(x)));
            return 4.0 * (1.0 + (double)t);
        }
        if (f32)
        {
            if (n == K_TGAMMA)
                return fabsl(x) <= 33 ? 16.0 : 256.0;
            return f.bound32;
        }
        if (n == K_ERFC)
        {
            if (x < 2)
                return 64.0;
            if (x < 7)
                return 131072.0; // 2^17
            return 134217728.0; // 2^27
        }
        if (n == K_TGAMMA)
            return x >= -33 ? 48.0 : 16.0 * (double)fabsl(x);
        (void)ref;
        return f.bound64;
    }
    // the value whose ulp is the unit of the error: the exact result, except lgamma (max(|f|,1))
    inline ld metric_value(const Fn& f, ld ref)
    {
        if (kind_of(f) == K_LGAMMA)
            return fabsl(ref) < 1 ? 1.0L : ref;
        return ref;
    }

    struct Arbiter
    {
        mpfr_t a, b, r, t;
        explicit Arbiter(int prec)
        {
            mpfr_init2(a, prec);
            mpfr_init2(b, prec);
            mpfr_init2(r, prec);
            mpfr_init2(t, prec);
        }
        ~Arbiter()
        {
            mpfr_clear(a);
            mpfr_clear(b);
            mpfr_clear(r);
            mpfr_clear(t);
        }
        // exact value rounded to long double (64-bit significand: error 2^-40 float-ulp, 2^-11 double-ulp);
        // the error in ulps is computed inside MPFR to keep the arbiter's own rounding out of the verdict
        ld eval(const Fn& f, double x, double y)
        {
            compute(f, x, y);
            return mpfr_get_ld(r, MPFR_RNDN);
        }
        // |got - exact| / ulp(metric), all in MPFR
        // one-entry memo: the same argument is usually judged on 22 targets in a row
        const Fn* last_f = nullptr;
        double last_x = 0, last_y = 0;
        unsigned long calls = 0, evals = 0;
        void compute(const Fn& f, double x, double y)
        {
            ++calls;
            if (last_f == &f && std::memcmp(&last_x, &x, 8) == 0 && std::memcmp(&last_y, &y, 8) == 0)
                return;
            ++evals;
            mpfr_set_d(a, x, MPFR_RNDN);
            mpfr_set_d(b, y, MPFR_RNDN);
            f.mp(r, a, b);
            last_f = &f;
            last_x = x;
            last_y = y;
        }
        double err_ulps(const Fn& f, double x, double y, double got, int p, ld* exact_out)
        {
            compute(f, x, y);
            ld ex = mpfr_get_ld(r, MPFR_RNDN);
            if (exact_out)
                *exact_out = ex;
            if (mpfr_nan_p(r) || mpfr_inf_p(r))
                return -1;
            mpfr_set_d(t, got, MPFR_RNDN);
            mpfr_sub(t, t, r, MPFR_RNDN);
            mpfr_abs(t, t, MPFR_RNDN);
            ld mv = metric_value(f, ex);
            ld u = ulp_of(mv, p);
            mpfr_set_ld(b, u, MPFR_RNDN); // b is scratch here: compute() re-derives its inputs from last_x/last_y
            mpfr_div(t, t, b, MPFR_RNDN);
            return mpfr_get_d(t, MPFR_RNDN);
        }
    };
}
#endif
