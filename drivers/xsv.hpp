// Driver core: targets (dlopen'ed shims), cases, statistics, violation records, JSON output.
// Drivers never include xsimd (DESIGN 2.2); they see byte images.
#ifndef XSV_HPP
#define XSV_HPP

#include <dlfcn.h>
#include <fenv.h>
#include <setjmp.h>
#include <signal.h>
#include <sys/time.h>
#include <unistd.h>
#include <xmmintrin.h>

#include <algorithm>
#include <cinttypes>
#include <cmath>
#include <cstdint>
#include <cstdio>
#include <cstdlib>
#include <cstring>
#include <fstream>
#include <functional>
#include <map>
#include <set>
#include <sstream>
#include <string>
#include <utility>
#include <unordered_set>
#include <vector>

#include "abi.h"

namespace xsv
{
    // ------------------------------------------------------------------ element types
    enum TypeId
    {
        I8,
        U8,
        I16,
        U16,
        I32,
        U32,
        I64,
        U64,
        F32,
        F64,
        C32,
        C64,
        NT
    };
    static const char* const kTypeNames[NT] = { "i8", "u8", "i16", "u16", "i32", "u32", "i64", "u64", "f32", "f64", "c32", "c64" };
    static const int kTypeBytes[NT] = { 1, 1, 2, 2, 4, 4, 8, 8, 4, 8, 8, 16 };
    inline TypeId type_from_name(const std::string& s)
    {
        for (int i = 0; i < NT; ++i)
            if (s == kTypeNames[i])
                return (TypeId)i;
        fprintf(stderr, "unknown type %s\n", s.c_str());
        exit(2);
    }
    template <class T>
    struct type_id;
#define XSV_TID(T, V)                           \
    template <>                                 \
    struct type_id<T>                           \
    {                                           \
        static constexpr TypeId value = V;      \
    };
    XSV_TID(int8_t, I8)
    XSV_TID(uint8_t, U8) XSV_TID(int16_t, I16) XSV_TID(uint16_t, U16) XSV_TID(int32_t, I32) XSV_TID(uint32_t, U32)
        XSV_TID(int64_t, I64) XSV_TID(uint64_t, U64) XSV_TID(float, F32) XSV_TID(double, F64)

    // ------------------------------------------------------------------ small utilities
    inline uint64_t mix64(uint64_t x)
    {
        x += 0x9e3779b97f4a7c15ull;
        x = (x ^ (x >> 30)) * 0xbf58476d1ce4e5b9ull;
        x = (x ^ (x >> 27)) * 0x94d049bb133111ebull;
        return x ^ (x >> 31);
    }
    inline uint64_t hash_bytes(const void* p, size_t n, uint64_t h = 0x1234567)
    {
        const unsigned char* s = (const unsigned char*)p;
        size_t i = 0;
        for (; i + 8 <= n; i += 8)
        {
            uint64_t w;
            memcpy(&w, s + i, 8);
            h = mix64(h ^ w);
        }
        uint64_t w = 0;
        if (i < n)
            memcpy(&w, s + i, n - i);
        return mix64(h ^ w ^ (uint64_t)n << 56);
    }
    inline uint64_t hash_str(const std::string& s, uint64_t h = 7) { return hash_bytes(s.data(), s.size(), h); }
    inline std::string hex(const void* p, size_t n)
    {
        static const char* d = "0123456789abcdef";
        std::string r;
        const unsigned char* s = (const unsigned char*)p;
        for (size_t i = 0; i < n; ++i)
        {
            r += d[s[i] >> 4];
            r += d[s[i] & 15];
        }
        return r;
    }
    inline std::vector<unsigned char> unhex(const std::string& s)
    {
        std::vector<unsigned char> r;
        auto v = [](char c) { return c <= '9' ? c - '0' : (c | 32) - 'a' + 10; };
        for (size_t i = 0; i + 1 < s.size(); i += 2)
            r.push_back((unsigned char)(v(s[i]) * 16 + v(s[i + 1])));
        return r;
    }
    inline std::string jstr(const std::string& s)
    {
        std::string r = "\"";
        for (char c : s)
        {
            if (c == '"' || c == '\\')
            {
                r += '\\';
                r += c;
            }
            else if (c == '\n')
                r += "\\n";
            else if ((unsigned char)c < 32)
                r += ' ';
            else
                r += c;
        }
        return r + "\"";
    }
    // value of one lane rendered for humans
    inline std::string lane_str(TypeId t, const void* p)
    {
        char b[96];
        switch (t)
        {
        case I8: snprintf(b, sizeof b, "%d", (int)*(const int8_t*)p); break;
        case U8: snprintf(b, sizeof b, "%u", (unsigned)*(const uint8_t*)p); break;
        case I16: { int16_t v; memcpy(&v, p, 2); snprintf(b, sizeof b, "%d", (int)v); break; }
        case U16: { uint16_t v; memcpy(&v, p, 2); snprintf(b, sizeof b, "%u", (unsigned)v); break; }
        case I32: { int32_t v; memcpy(&v, p, 4); snprintf(b, sizeof b, "%d", v); break; }
        case U32: { uint32_t v; memcpy(&v, p, 4); snprintf(b, sizeof b, "%u", v); break; }
        case I64: { int64_t v; memcpy(&v, p, 8); snprintf(b, sizeof b, "%" PRId64, v); break; }
        case U64: { uint64_t v; memcpy(&v, p, 8); snprintf(b, sizeof b, "%" PRIu64, v); break; }
        case F32: { float v; uint32_t u; memcpy(&v, p, 4); memcpy(&u, p, 4); snprintf(b, sizeof b, "%.9g(0x%08x)", (double)v, u); break; }
        case F64: { double v; uint64_t u; memcpy(&v, p, 8); memcpy(&u, p, 8); snprintf(b, sizeof b, "%.17g(0x%016" PRIx64 ")", v, u); break; }
        case C32: { float v[2]; memcpy(v, p, 8); snprintf(b, sizeof b, "(%.9g,%.9g)", (double)v[0], (double)v[1]); break; }
        case C64: { double v[2]; memcpy(v, p, 16); snprintf(b, sizeof b, "(%.17g,%.17g)", v[0], v[1]); break; }
        default: b[0] = 0;
        }
        return b;
    }

    // ------------------------------------------------------------------ options
    struct Options
    {
        std::string prop, tier = "quick", out, viol_dir, shims_file, mode;
        uint64_t seed = 1;
        int worker = 0, nworkers = 1;
        long budget = 1000; // rapidcheck cases per group
        long sweep = 1; // sweep effort multiplier
        std::set<std::string> known; // open known-finding classes
        std::set<std::string> only_targets, only_ops, only_types;
        std::vector<std::string> replay; // replay-case tokens
        std::map<std::string, std::string> kv; // free-form driver parameters
        bool thorough() const { return tier == "thorough"; }
        std::string get(const std::string& k, const std::string& d = "") const
        {
            auto it = kv.find(k);
            return it == kv.end() ? d : it->second;
        }
        long geti(const std::string& k, long d) const
        {
            auto it = kv.find(k);
            return it == kv.end() ? d : atol(it->second.c_str());
        }
    };
    inline std::set<std::string> split_set(const std::string& s)
    {
        std::set<std::string> r;
        std::stringstream ss(s);
        std::string x;
        while (std::getline(ss, x, ','))
            if (!x.empty())
                r.insert(x);
        return r;
    }
    inline Options parse_options(int argc, char** argv)
    {
        Options o;
        for (int i = 1; i < argc; ++i)
        {
            std::string a = argv[i];
            auto next = [&]() -> std::string {
                if (i + 1 >= argc)
                {
                    fprintf(stderr, "missing value for %s\n", a.c_str());
                    exit(2);
                }
                return argv[++i];
            };
            if (a == "--prop") o.prop = next();
            else if (a == "--tier") o.tier = next();
            else if (a == "--out") o.out = next();
            else if (a == "--viol-dir") o.viol_dir = next();
            else if (a == "--shims") o.shims_file = next();
            else if (a == "--mode") o.mode = next();
            else if (a == "--seed") o.seed = strtoull(next().c_str(), 0, 10);
            else if (a == "--worker") o.worker = atoi(next().c_str());
            else if (a == "--nworkers") o.nworkers = atoi(next().c_str());
            else if (a == "--budget") o.budget = atol(next().c_str());
            else if (a == "--sweep") o.sweep = atol(next().c_str());
            else if (a == "--known") o.known = split_set(next());
            else if (a == "--targets") o.only_targets = split_set(next());
            else if (a == "--ops") o.only_ops = split_set(next());
            else if (a == "--types") o.only_types = split_set(next());
            else if (a == "--replay-case")
            {
                while (i + 1 < argc)
                    o.replay.push_back(argv[++i]);
            }
            else if (a.rfind("--set:", 0) == 0)
                o.kv[a.substr(6)] = next();
            else
            {
                fprintf(stderr, "unknown option %s\n", a.c_str());
                exit(2);
            }
        }
        return o;
    }

    // ------------------------------------------------------------------ fault injection for the pipeline self-test
    // XSV_INJECT="op:type" (type "*" = every type): after the real kernel ran, lane 0 of its first output is corrupted
    // when a hash of the first input element and of the immediates is even.  tools/selftest_inject.py then expects every
    // check that claims the operation to end with a confirmed VIOLATION: a worker that does not judge the operation, or
    // a record from which the replay cannot rebuild the case, shows up as exit 0 / exit 2.  Never set by a check.
    namespace inject
    {
        struct Slot
        {
            xsv_fn real = nullptr;
            unsigned elem_bytes = 0;
        };
        inline Slot* slots()
        {
            static Slot s[64];
            return s;
        }
        template <int I>
        void tramp(const xsv_args* a)
        {
            const Slot& sl = slots()[I];
            uint64_t h = 0x9e3779b97f4a7c15ull ^ (uint64_t)a->imm[0] * 0xff51afd7ed558ccdull ^ (uint64_t)a->imm[1] * 0xc4ceb9fe1a85ec53ull;
            if (a->in[0])
                for (unsigned i = 0; i < sl.elem_bytes && i < 8; ++i)
                    h = (h ^ ((const unsigned char*)a->in[0])[i]) * 0x100000001b3ull;
            sl.real(a);
            h ^= h >> 29;
            if ((h & 1) == 0 && a->out[0])
            {
                unsigned char* o = (unsigned char*)a->out[0];
                o[0] ^= 0x01;
                if (sl.elem_bytes > 1)
                    o[sl.elem_bytes - 1] ^= 0x40;
            }
        }
        template <int... I>
        inline xsv_fn tramp_at(int k, std::integer_sequence<int, I...>)
        {
            static const xsv_fn t[] = { &tramp<I>... };
            return t[k];
        }
        inline const xsv_entry* wrap(const xsv_entry* e)
        {
            static int used = 0;
            static const char* spec = getenv("XSV_INJECT");
            if (!spec || used >= 64)
                return e;
            const std::string sp = spec, key = std::string(e->op) + ":" + e->type, any = std::string(e->op) + ":*";
            if (sp != key && sp != any)
                return e;
            slots()[used].real = e->fn;
            slots()[used].elem_bytes = e->elem_bytes;
            xsv_entry* c = new xsv_entry(*e);
            c->fn = tramp_at(used, std::make_integer_sequence<int, 64>());
            ++used;
            return c;
        }
    }

    // ------------------------------------------------------------------ targets
    struct Target
    {
        std::string name, family;
        int bits = 0;
        void* handle = nullptr;
        std::map<std::string, const xsv_entry*> ops; // "op:type"
        void (*tick_ctl)(int, long*) = nullptr;
        const xsv_entry* find(const std::string& op, const char* type) const
        {
            auto it = ops.find(op + ":" + type);
            return it == ops.end() ? nullptr : it->second;
        }
    };
    // shims file: lines "family target bits path"
    inline std::vector<Target> load_targets(const Options& o, const std::string& family)
    {
        std::vector<Target> r;
        std::ifstream f(o.shims_file);
        if (!f)
        {
            fprintf(stderr, "cannot open shims file %s\n", o.shims_file.c_str());
            exit(2);
        }
        std::string fam, name, path;
        int bits;
        while (f >> fam >> name >> bits >> path)
        {
            if (fam != family)
                continue;
            if (!o.only_targets.empty() && !o.only_targets.count(name))
                continue;
            Target t;
            t.name = name;
            t.family = fam;
            t.bits = bits;
            t.handle = dlopen(path.c_str(), RTLD_NOW | RTLD_LOCAL);
            if (!t.handle)
            {
                fprintf(stderr, "dlopen %s: %s\n", path.c_str(), dlerror());
                exit(2);
            }
            auto tab = (xsv_table_fn)dlsym(t.handle, "xsv_table");
            if (!tab)
            {
                fprintf(stderr, "no xsv_table in %s\n", path.c_str());
                exit(2);
            }
            size_t n = 0;
            const xsv_entry* e = tab(&n);
            for (size_t i = 0; i < n; ++i)
                t.ops[std::string(e[i].op) + ":" + e[i].type] = inject::wrap(&e[i]);
            t.tick_ctl = (void (*)(int, long*))dlsym(t.handle, "xsv_tick_ctl");
            r.push_back(t);
        }
        if (r.empty())
        {
            fprintf(stderr, "no targets for family %s in %s\n", family.c_str(), o.shims_file.c_str());
            exit(2);
        }
        return r;
    }

    // ------------------------------------------------------------------ floating environment guard (DESIGN 2.3)
    inline bool fpenv_ok() { return fegetround() == FE_TONEAREST && (_mm_getcsr() & 0x8040) == 0; }

    // ------------------------------------------------------------------ statistics / evidence
    struct Stats
    {
        uint64_t evaluations = 0; // generated cases (each executed on every selected target)
        uint64_t executions = 0; // shim calls
        uint64_t lane_checks = 0; // lanes compared with the oracle
        uint64_t skipped_lanes = 0; // lanes outside the operation's precondition
        uint64_t nontrivial_cases = 0;
        uint64_t known_hits = 0;
        std::unordered_set<uint64_t> distinct; // hashes of distinct non-trivial cases
        bool distinct_capped = false;
        uint64_t distinct_extra = 0; // distinct non-trivial cases counted without hashing (enumerations whose cases are distinct by construction)
        static constexpr size_t kCap = 3000000;
        std::map<std::string, uint64_t> classes; // class histogram
        std::map<std::string, uint64_t> per_target;
        std::map<std::string, uint64_t> per_group; // op:type -> cases
        std::map<std::string, uint64_t> known_by_class;
        std::vector<std::string> samples; // JSON objects
        std::map<std::string, int> sample_quota;
        std::vector<std::string> notes;
        std::map<std::string, double> maxima; // e.g. max ulp error per function
        std::map<std::string, std::string> argmax;
        bool exhaustive = false;
        void note_distinct(uint64_t h)
        {
            nontrivial_cases++;
            if (distinct.size() < kCap)
                distinct.insert(h);
            else
                distinct_capped = true;
        }
        bool want_sample(const std::string& group, int quota = 2)
        {
            if (samples.size() >= 400)
                return false;
            int& q = sample_quota[group];
            if (q >= quota)
                return false;
            ++q;
            return true;
        }
        void cls(const char* c, uint64_t n = 1) { classes[c] += n; }
        void maxv(const std::string& k, double v, const std::string& arg)
        {
            auto it = maxima.find(k);
            if (it == maxima.end() || v > it->second)
            {
                maxima[k] = v;
                argmax[k] = arg;
            }
        }
    };

    struct Violation
    {
        std::string prop, op, type, target, why, expected, got;
        int lane = -1;
        int64_t imm[2] = { 0, 0 };
        std::vector<std::string> in_hex; // full register images (target width)
        std::vector<std::string> in_lane; // human-readable failing lane operands
        std::string extra; // driver specific JSON fragment (",\"k\":v...")
        std::string kind = "elem";
        std::string to_json() const
        {
            std::string s = "{";
            s += "\"property\":" + jstr(prop) + ",\"kind\":" + jstr(kind) + ",\"op\":" + jstr(op) + ",\"type\":" + jstr(type) + ",\"target\":" + jstr(target);
            s += ",\"lane\":" + std::to_string(lane) + ",\"imm\":[" + std::to_string(imm[0]) + "," + std::to_string(imm[1]) + "]";
            s += ",\"inputs\":[";
            for (size_t i = 0; i < in_hex.size(); ++i)
                s += (i ? "," : "") + jstr(in_hex[i]);
            s += "],\"lane_operands\":[";
            for (size_t i = 0; i < in_lane.size(); ++i)
                s += (i ? "," : "") + jstr(in_lane[i]);
            s += "],\"expected\":" + jstr(expected) + ",\"got\":" + jstr(got) + ",\"why\":" + jstr(why) + extra + "}";
            return s;
        }
        std::string key() const { return op + ":" + type + ":" + target; }
    };

    struct Context
    {
        Options opt;
        Stats st;
        std::vector<Violation> violations; // one per key (op:type:target), the most reduced seen
        std::map<std::string, size_t> viol_index;
        std::map<std::string, Violation> known_witness; // class -> first failing case inside an open known class
        // "current case" for the crash handler
        Violation current;
        bool current_valid = false;
        unsigned char last_out[16] = { 0 };

        // C14 run by a driver of another property: only "the call did not return" (crash / no return) is reported, values are not judged
        bool termination_only = false;
        uint64_t call_serial = 0; // bumped by the watchdog's view of progress (see install_crash_handlers)

        void add_violation(const Violation& v, bool replace = true)
        {
            if (termination_only && v.why.compare(0, 6, "crash:") != 0 && v.why.compare(0, 10, "no return:") != 0)
                return;
            auto it = viol_index.find(v.key());
            if (it == viol_index.end())
            {
                if (violations.size() >= 64)
                    return;
                viol_index[v.key()] = violations.size();
                violations.push_back(v);
            }
            else if (replace)
                violations[it->second] = v;
        }
        bool has_violation(const std::string& key) const { return viol_index.count(key) != 0; }

        void write_out()
        {
            if (opt.out.empty())
                return;
            std::string s = "{";
            s += "\"worker\":" + std::to_string(opt.worker);
            s += ",\"evaluations\":" + std::to_string(st.evaluations);
            s += ",\"executions\":" + std::to_string(st.executions);
            s += ",\"lane_checks\":" + std::to_string(st.lane_checks);
            s += ",\"skipped_lanes\":" + std::to_string(st.skipped_lanes);
            s += ",\"nontrivial_cases\":" + std::to_string(st.nontrivial_cases);
            s += ",\"distinct_nontrivial\":" + std::to_string(st.distinct.size() + st.distinct_extra);
            s += std::string(",\"distinct_capped\":") + (st.distinct_capped ? "true" : "false");
            s += std::string(",\"exhaustive\":") + (st.exhaustive ? "true" : "false");
            s += ",\"known_hits\":" + std::to_string(st.known_hits);
            auto dump = [&](const char* name, const std::map<std::string, uint64_t>& m) {
                s += std::string(",\"") + name + "\":{";
                bool first = true;
                for (auto& kv : m)
                {
                    s += (first ? "" : ",") + jstr(kv.first) + ":" + std::to_string(kv.second);
                    first = false;
                }
                s += "}";
            };
            dump("classes", st.classes);
            dump("per_target", st.per_target);
            dump("per_group", st.per_group);
            dump("known_by_class", st.known_by_class);
            s += ",\"maxima\":{";
            {
                bool first = true;
                for (auto& kv : st.maxima)
                {
                    char b[64];
                    snprintf(b, sizeof b, "%.6g", std::isfinite(kv.second) ? kv.second : 1e300);
                    s += (first ? "" : ",") + jstr(kv.first) + ":{\"v\":" + b + ",\"at\":" + jstr(st.argmax[kv.first]) + "}";
                    first = false;
                }
            }
            s += "},\"samples\":[";
            for (size_t i = 0; i < st.samples.size(); ++i)
                s += (i ? "," : "") + st.samples[i];
            s += "],\"notes\":[";
            for (size_t i = 0; i < st.notes.size(); ++i)
                s += (i ? "," : "") + jstr(st.notes[i]);
            s += "],\"violations\":[";
            for (size_t i = 0; i < violations.size(); ++i)
                s += (i ? "," : "") + violations[i].to_json();
            s += "],\"known_witness\":{";
            {
                bool first = true;
                for (auto& kv : known_witness)
                {
                    s += (first ? "" : ",") + jstr(kv.first) + ":" + kv.second.to_json();
                    first = false;
                }
            }
            s += "}}";
            std::string tmp = opt.out + ".tmp";
            FILE* f = fopen(tmp.c_str(), "w");
            if (!f)
                return;
            fwrite(s.data(), 1, s.size(), f);
            fclose(f);
            rename(tmp.c_str(), opt.out.c_str());
        }
    };

    inline Context*& g_ctx()
    {
        static Context* c = nullptr;
        return c;
    }

    // A crash (assert, SIGSEGV, SIGFPE, SIGILL) inside a shim call is reported as a violation for the
    // case that was executing (DESIGN 2.1: xsimd's asserts are part of the oracle).
    inline void crash_handler(int sig)
    {
        static volatile sig_atomic_t entered = 0;
        if (entered)
            _exit(3); // a fault while reporting a fault: never loop
        entered = 1;
        Context* c = g_ctx();
        if (c && c->current_valid)
        {
            Violation v = c->current;
            v.why = std::string("crash: signal ") + std::to_string(sig) + " (" + strsignal(sig) + ") during the call";
            c->add_violation(v);
            c->write_out();
        }
        _exit(3);
    }
    // A call that does not return (C14): the process CPU-time timer fires every kHangSeconds; when two consecutive firings see
    // the same shim call still executing (same execution count, current_valid), that call has used at least kHangSeconds of CPU
    // time -- about 10^6 times what any call needs -- and is reported like a crash: the record of the executing case becomes a
    // candidate, the worker exits, and the replay (which hangs the same way and is stopped the same way) confirms it.
    // CPU time, not wall-clock time: load on the machine cannot fire it.
    constexpr int kHangSecondsDefault = 10;
    inline int hang_seconds()
    {
        static const int v = [] { const char* e = getenv("XSV_HANG_SECONDS"); int k = e ? atoi(e) : 0; return k > 0 ? k : kHangSecondsDefault; }();
        return v;
    }
#define kHangSeconds (::xsv::hang_seconds())
    inline void hang_handler(int)
    {
        static uint64_t last_exec = ~0ull;
        static int same = 0;
        Context* c = g_ctx();
        if (!c)
            return;
        if (c->current_valid && c->st.executions == last_exec)
            ++same;
        else
            same = 0;
        last_exec = c->st.executions;
        if (same >= 1)
        {
            Violation v = c->current;
            v.why = "no return: the call was still executing after " + std::to_string(kHangSeconds) + " s of CPU time (running time not bounded by a constant)";
            c->termination_only = false;
            c->add_violation(v);
            c->write_out();
            _exit(3);
        }
    }
    inline void install_crash_handlers()
    {
        {
            struct sigaction sh;
            memset(&sh, 0, sizeof sh);
            sh.sa_handler = hang_handler;
            sh.sa_flags = SA_RESTART;
            sigaction(SIGVTALRM, &sh, nullptr);
            struct itimerval it;
            it.it_interval.tv_sec = kHangSeconds;
            it.it_interval.tv_usec = 0;
            it.it_value = it.it_interval;
            setitimer(ITIMER_VIRTUAL, &it, nullptr);
        }
        static char stack[1 << 16];
        stack_t ss;
        ss.ss_sp = stack;
        ss.ss_size = sizeof stack;
        ss.ss_flags = 0;
        sigaltstack(&ss, nullptr);
        struct sigaction sa;
        memset(&sa, 0, sizeof sa);
        sa.sa_handler = crash_handler;
        sa.sa_flags = SA_ONSTACK | SA_NODEFER;
        for (int s : { SIGSEGV, SIGBUS, SIGFPE, SIGILL, SIGABRT })
            sigaction(s, &sa, nullptr);
    }
}
#endif
