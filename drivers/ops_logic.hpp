// C03 (comparisons, batch_bool algebra, select, round trips) and C06 (conversions) lane judges.
#ifndef XSV_OPS_LOGIC_HPP
#define XSV_OPS_LOGIC_HPP
#include "elem_gen.hpp"
#include "fp_model.hpp"
#include "int_model.hpp"

namespace xsv
{
    template <class T>
    inline unsigned any_cls(T a)
    {
        if constexpr (std::is_floating_point<T>::value)
            return model::is_special(a) ? (unsigned)CL_SPECIAL : 0u;
        else
        {
            using L = std::numeric_limits<T>;
            unsigned c = 0;
            if (std::is_signed<T>::value && a < 0)
                c |= CL_NEG;
            if (a == L::max() || a == L::min())
                c |= CL_EXTREME;
            if (!std::is_signed<T>::value && a > L::max() / 2)
                c |= CL_NEG; // top bit set: the signed-compare emulations must bias these
            return c;
        }
    }

    template <class F>
    inline OpDef& def_cmp(const char* name, F f)
    {
        OpDef& d = new_op(name, "C03", "logic", 2);
        d.out = O_BOOL;
        d.judge[I8] = make_judge<int8_t, uint8_t>(f);
        d.judge[U8] = make_judge<uint8_t, uint8_t>(f);
        d.judge[I16] = make_judge<int16_t, uint8_t>(f);
        d.judge[U16] = make_judge<uint16_t, uint8_t>(f);
        d.judge[I32] = make_judge<int32_t, uint8_t>(f);
        d.judge[U32] = make_judge<uint32_t, uint8_t>(f);
        d.judge[I64] = make_judge<int64_t, uint8_t>(f);
        d.judge[U64] = make_judge<uint64_t, uint8_t>(f);
        d.judge[F32] = make_judge<float, uint8_t>(f);
        d.judge[F64] = make_judge<double, uint8_t>(f);
        d.gen_hint = "cmp";
        return d;
    }

    // raw judges over mask bytes
    template <bool (*F)(bool, bool)>
    inline int jb2(const void* const* in, int64_t, const void* got, void* exp, unsigned* cls, std::string*)
    {
        bool p = *(const uint8_t*)in[0] != 0, q = *(const uint8_t*)in[1] != 0;
        uint8_t e = F(p, q) ? 1 : 0;
        *(uint8_t*)exp = e;
        *cls |= 1u << (12 + (p ? 2 : 0) + (q ? 1 : 0)); // which of the four (p,q) combinations occurred
        return *(const uint8_t*)got == e ? J_OK : J_FAIL;
    }
    template <bool (*F)(bool)>
    inline int jb1(const void* const* in, int64_t, const void* got, void* exp, unsigned* cls, std::string*)
    {
        bool p = *(const uint8_t*)in[0] != 0;
        uint8_t e = F(p) ? 1 : 0;
        *(uint8_t*)exp = e;
        *cls |= p ? CL_TRUE : CL_FALSE;
        return *(const uint8_t*)got == e ? J_OK : J_FAIL;
    }
    inline bool b_and(bool p, bool q) { return p && q; }
    inline bool b_or(bool p, bool q) { return p || q; }
    inline bool b_xor(bool p, bool q) { return p != q; }
    inline bool b_eq(bool p, bool q) { return p == q; }
    inline bool b_andnot(bool p, bool q) { return p && !q; }
    inline bool b_not(bool p) { return !p; }
    inline bool b_id(bool p) { return p; }

    inline OpDef& def_bb(const char* name, int arity, LaneJudge j, bool with_float_only = false, bool ints32_64_only = false)
    {
        OpDef& d = new_op(name, "C03", "logic", arity);
        d.out = O_BOOL;
        for (int i = 0; i < arity; ++i)
            d.kind[i] = K_MASK;
        for (int t = 0; t <= F64; ++t)
            d.judge[t] = j;
        (void)with_float_only;
        (void)ints32_64_only;
        return d;
    }

    // exact value conversion model: returns false when the source is not representable in the destination
    template <class From, class To>
    inline bool cast_model(From v, To& out)
    {
        if constexpr (std::is_floating_point<From>::value && std::is_integral<To>::value)
        {
            if (!std::isfinite(v))
                return false;
            From tr = std::trunc(v);
            // [MIN, MAX] of To, evaluated without overflow: tr >= MIN and tr < MAX+1 (a power of two, exact in From)
            const From lo = (From)std::numeric_limits<To>::min();
            const From hi = std::ldexp((From)1, std::numeric_limits<To>::digits); // MAX+1
            if (!(tr >= lo && tr < hi))
                return false;
            out = static_cast<To>(v);
            return true;
        }
        else
        {
            out = static_cast<To>(v);
            return true;
        }
    }
    template <class From, class To>
    inline LaneJudge make_cast_judge()
    {
        return [](const void* const* in, int64_t, const void* got, void* exp, unsigned* cls, std::string*) -> int {
            From v;
            To g, e;
            memcpy(&v, in[0], sizeof v);
            memcpy(&g, got, sizeof g);
            memset(&e, 0, sizeof e);
            if (!cast_model<From, To>(v, e))
                return J_SKIP;
            memcpy(exp, &e, sizeof e);
            *cls |= any_cls(v);
            if constexpr (std::is_integral<From>::value && std::is_floating_point<To>::value)
            {
                // inexact conversion (rounding happened) / near a power of two
                To back = e;
                bool exact = back >= (To)std::numeric_limits<From>::min() && back < std::ldexp((To)1, std::numeric_limits<From>::digits) && (From)back == v;
                if (!exact)
                    *cls |= CL_INEXACT;
                if (v != 0 && ((uint64_t)(v < 0 ? 0 - (uint64_t)v : (uint64_t)v) >> std::numeric_limits<To>::digits) != 0)
                    *cls |= CL_BOUNDARY;
            }
            if constexpr (std::is_floating_point<From>::value && std::is_integral<To>::value)
            {
                if (v != std::trunc(v))
                    *cls |= CL_INEXACT;
                if (std::fabs(v) >= std::ldexp((From)1, std::numeric_limits<From>::digits - 1))
                    *cls |= CL_BOUNDARY;
            }
            if constexpr (std::is_integral<From>::value && std::is_integral<To>::value)
            {
                if ((model::i128)v != (model::i128)e)
                    *cls |= CL_WRAP;
            }
            if constexpr (std::is_floating_point<To>::value)
                return model::same(g, e) ? J_OK : J_FAIL;
            else
                return g == e ? J_OK : J_FAIL;
        };
    }
    template <class From, class To>
    inline void def_cast(const char* name)
    {
        const OpDef* ex = nullptr;
        for (auto& d : op_registry())
            if (d.name == name && d.family == "conv")
                ex = &d;
        OpDef& d = ex ? const_cast<OpDef&>(*ex) : new_op(name, "C06", "conv", 1);
        d.out = O_OTHER;
        d.out_type[type_id<From>::value] = type_id<To>::value;
        d.judge[type_id<From>::value] = make_cast_judge<From, To>();
    }
    inline int j_bytes_identity(TypeId t, const void* const* in, const void* got, void* exp, unsigned* cls)
    {
        memcpy(exp, in[0], kTypeBytes[t]);
        *cls |= CL_BOUNDARY;
        return memcmp(got, in[0], kTypeBytes[t]) == 0 ? J_OK : J_FAIL;
    }
    template <int TID>
    inline int j_ident(const void* const* in, int64_t, const void* got, void* exp, unsigned* cls, std::string*)
    {
        return j_bytes_identity((TypeId)TID, in, got, exp, cls);
    }

    inline void register_logic_ops()
    {
        // ---- comparisons
        auto cmpcls = [](auto x, auto y, bool r) -> unsigned { return any_cls(x) | any_cls(y) | (r ? CL_TRUE : CL_FALSE) | (x == y ? CL_TIE : 0); };
        auto j_eq = [cmpcls](auto* a, int64_t, uint8_t got, uint8_t& exp, unsigned& cls) -> int { bool r = a[0] == a[1]; exp = r; cls |= cmpcls(a[0], a[1], r); return got == exp ? J_OK : J_FAIL; };
        auto j_ne = [cmpcls](auto* a, int64_t, uint8_t got, uint8_t& exp, unsigned& cls) -> int { bool r = a[0] != a[1]; exp = r; cls |= cmpcls(a[0], a[1], r); return got == exp ? J_OK : J_FAIL; };
        auto j_lt = [cmpcls](auto* a, int64_t, uint8_t got, uint8_t& exp, unsigned& cls) -> int { bool r = a[0] < a[1]; exp = r; cls |= cmpcls(a[0], a[1], r); return got == exp ? J_OK : J_FAIL; };
        auto j_le = [cmpcls](auto* a, int64_t, uint8_t got, uint8_t& exp, unsigned& cls) -> int { bool r = a[0] <= a[1]; exp = r; cls |= cmpcls(a[0], a[1], r); return got == exp ? J_OK : J_FAIL; };
        auto j_gt = [cmpcls](auto* a, int64_t, uint8_t got, uint8_t& exp, unsigned& cls) -> int { bool r = a[0] > a[1]; exp = r; cls |= cmpcls(a[0], a[1], r); return got == exp ? J_OK : J_FAIL; };
        auto j_ge = [cmpcls](auto* a, int64_t, uint8_t got, uint8_t& exp, unsigned& cls) -> int { bool r = a[0] >= a[1]; exp = r; cls |= cmpcls(a[0], a[1], r); return got == exp ? J_OK : J_FAIL; };
        def_cmp("eq", j_eq);
        def_cmp("op_eq", j_eq);
        def_cmp("ne", j_ne);
        def_cmp("op_ne", j_ne);
        def_cmp("lt", j_lt);
        def_cmp("op_lt", j_lt);
        def_cmp("le", j_le);
        def_cmp("op_le", j_le);
        def_cmp("gt", j_gt);
        def_cmp("op_gt", j_gt);
        def_cmp("ge", j_ge);
        def_cmp("op_ge", j_ge);
        // ---- batch_bool algebra
        for (const char* n : { "bb_and", "bb_land", "bb_fand", "bb_and_assign" })
            def_bb(n, 2, jb2<b_and>);
        for (const char* n : { "bb_or", "bb_lor", "bb_for", "bb_or_assign" })
            def_bb(n, 2, jb2<b_or>);
        for (const char* n : { "bb_xor", "bb_ne", "bb_fxor", "bb_xor_assign" })
            def_bb(n, 2, jb2<b_xor>);
        def_bb("bb_eq", 2, jb2<b_eq>);
        def_bb("bb_broadcast", 1, jb1<b_id>); // batch_bool(bool): the shim returns lane l of batch_bool(in[l])
        def_bb("bb_andnot", 2, jb2<b_andnot>);
        for (const char* n : { "bb_not", "bb_lnot", "bb_fnot" })
            def_bb(n, 1, jb1<b_not>);
        for (const char* n : { "bb_identity", "from_mask", "bb_aligned_rt", "bbcast_int", "bbcast_uint" })
            def_bb(n, 1, jb1<b_id>);
        {
            OpDef& d = def_bb("bbcast_float", 1, jb1<b_id>);
            for (int t : { I8, U8, I16, U16 })
                d.judge[t] = nullptr;
        }
        // ---- batch<T>(batch_bool): 0/1
        {
            OpDef& d = new_op("bb_to_batch", "C03", "logic", 1);
            d.kind[0] = K_MASK;
            auto f = [](auto* a, uint8_t m, int64_t, auto got, auto& exp, unsigned& cls) -> int {
                using T = XSV_T;
                exp = m ? (T)1 : (T)0;
                cls |= m ? CL_TRUE : CL_FALSE;
                return memcmp(&got, &exp, sizeof(T)) == 0 ? J_OK : J_FAIL;
            };
            d.judge[I8] = make_judge_m<int8_t, int8_t>(f, 0);
            d.judge[U8] = make_judge_m<uint8_t, uint8_t>(f, 0);
            d.judge[I16] = make_judge_m<int16_t, int16_t>(f, 0);
            d.judge[U16] = make_judge_m<uint16_t, uint16_t>(f, 0);
            d.judge[I32] = make_judge_m<int32_t, int32_t>(f, 0);
            d.judge[U32] = make_judge_m<uint32_t, uint32_t>(f, 0);
            d.judge[I64] = make_judge_m<int64_t, int64_t>(f, 0);
            d.judge[U64] = make_judge_m<uint64_t, uint64_t>(f, 0);
            d.judge[F32] = make_judge_m<float, float>(f, 0);
            d.judge[F64] = make_judge_m<double, double>(f, 0);
        }
        // ---- select: bit-exact choice
        {
            OpDef& d = new_op("select", "C03", "logic", 3);
            d.kind[0] = K_MASK;
            auto mk = [](int tb) -> LaneJudge { (void)tb; return nullptr; };
            (void)mk;
#define XSV_SEL(TID, NB)                                                                                                             \
    d.judge[TID] = [](const void* const* in, int64_t, const void* got, void* exp, unsigned* cls, std::string*) -> int {                 \
        bool m = *(const uint8_t*)in[0] != 0;                                                                                        \
        memcpy(exp, m ? in[1] : in[2], NB);                                                                                          \
        *cls |= (m ? CL_TRUE : CL_FALSE) | (memcmp(in[1], in[2], NB) ? CL_BOUNDARY : 0);                                             \
        return memcmp(got, exp, NB) == 0 ? J_OK : J_FAIL;                                                                            \
    };
            XSV_SEL(I8, 1)
            XSV_SEL(U8, 1) XSV_SEL(I16, 2) XSV_SEL(U16, 2) XSV_SEL(I32, 4) XSV_SEL(U32, 4) XSV_SEL(I64, 8) XSV_SEL(U64, 8) XSV_SEL(F32, 4) XSV_SEL(F64, 8)
        }

        // ---- C06 conversions
        def_cast<int32_t, int32_t>("cast_i32");
        def_cast<uint32_t, int32_t>("cast_i32");
        def_cast<float, int32_t>("cast_i32");
        def_cast<int32_t, uint32_t>("cast_u32");
        def_cast<uint32_t, uint32_t>("cast_u32");
        def_cast<float, uint32_t>("cast_u32");
        def_cast<int32_t, float>("cast_f32");
        def_cast<uint32_t, float>("cast_f32");
        def_cast<float, float>("cast_f32");
        def_cast<int64_t, int64_t>("cast_i64");
        def_cast<uint64_t, int64_t>("cast_i64");
        def_cast<double, int64_t>("cast_i64");
        def_cast<int64_t, uint64_t>("cast_u64");
        def_cast<uint64_t, uint64_t>("cast_u64");
        def_cast<double, uint64_t>("cast_u64");
        def_cast<int64_t, double>("cast_f64");
        def_cast<uint64_t, double>("cast_f64");
        def_cast<double, double>("cast_f64");
        def_cast<int8_t, int8_t>("cast_i8");
        def_cast<uint8_t, int8_t>("cast_i8");
        def_cast<int8_t, uint8_t>("cast_u8");
        def_cast<uint8_t, uint8_t>("cast_u8");
        def_cast<int16_t, int16_t>("cast_i16");
        def_cast<uint16_t, int16_t>("cast_i16");
        def_cast<int16_t, uint16_t>("cast_u16");
        def_cast<uint16_t, uint16_t>("cast_u16");
        def_cast<float, int32_t>("to_int");
        def_cast<double, int64_t>("to_int");
        def_cast<int32_t, float>("to_float");
        def_cast<int64_t, double>("to_float");
        def_cast<int32_t, float>("bcast_as_f32");
        def_cast<uint32_t, float>("bcast_as_f32");
        def_cast<double, float>("bcast_as_f32");
        def_cast<int16_t, float>("bcast_as_f32");
        def_cast<float, int32_t>("bcast_as_i32");
        def_cast<int64_t, int32_t>("bcast_as_i32");
        def_cast<float, uint32_t>("bcast_as_u32");
        def_cast<int64_t, double>("bcast_as_f64");
        def_cast<uint64_t, double>("bcast_as_f64");
        def_cast<float, double>("bcast_as_f64");
        def_cast<double, int64_t>("bcast_as_i64");
        def_cast<double, uint64_t>("bcast_as_u64");
        def_cast<uint8_t, uint64_t>("bcast_as_u64");
        def_cast<int32_t, int8_t>("bcast_as_i8");
        def_cast<int32_t, uint16_t>("bcast_as_u16");
        // bitwise_cast: the register bytes are unchanged (judged lane by lane in the source type), and the round trip is the identity
        for (const char* to : { "i8", "u8", "i16", "u16", "i32", "u32", "i64", "u64", "f32", "f64" })
            for (const char* pre : { "bitcast_", "bitcast_rt_" })
            {
                OpDef& d = new_op((std::string(pre) + to).c_str(), "C06", "conv", 1);
                d.cheap_only = true;
                d.judge[I8] = j_ident<I8>;
                d.judge[U8] = j_ident<U8>;
                d.judge[I16] = j_ident<I16>;
                d.judge[U16] = j_ident<U16>;
                d.judge[I32] = j_ident<I32>;
                d.judge[U32] = j_ident<U32>;
                d.judge[I64] = j_ident<I64>;
                d.judge[U64] = j_ident<U64>;
                d.judge[F32] = j_ident<F32>;
                d.judge[F64] = j_ident<F64>;
            }
    }
}
#endif
