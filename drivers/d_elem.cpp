#include <algorithm>
// Driver for the element-wise properties (C01 C02 C03-compare C06 C07 C08 C13-exact C17).
// One worker process handles the (op,type) groups with index % nworkers == worker.
#include "elem_gen.hpp"
#include "ops_int.hpp"
#include "ops_fp.hpp"
#include "ops_logic.hpp"
#include "ops_scalar.hpp"
#include "known.hpp"

using namespace xsv;

struct Group
{
    const OpDef* d;
    TypeId t;
};

// make generated operands respect the operation's hard preconditions (those whose violation is a
// processor trap, not merely an unspecified lane): integer division by zero and MIN / -1.
static uint64_t g_sanitized = 0;
static void sanitize(ElemCase& c)
{
    const OpDef& d = *c.op;
    if (!d.div_like || tfloat(c.type))
        return;
    const int eb = kTypeBytes[c.type];
    const uint64_t m = tmask(c.type);
    const uint64_t smin = (m >> 1) + 1;
    for (int l = 0; l < 64 / eb; ++l)
    {
        uint64_t a = 0, b = 0;
        memcpy(&a, c.in[0] + l * eb, eb);
        memcpy(&b, c.in[1] + l * eb, eb);
        if (b == 0 || (tsigned(c.type) && a == smin && b == m))
        {
            b = 1;
            memcpy(c.in[1] + l * eb, &b, eb);
            g_sanitized++;
        }
    }
}
namespace xsv
{
    void (*g_case_filter)(ElemCase&) = nullptr;
}

static std::vector<std::vector<uint64_t>> value_lists(const OpDef& d, TypeId t, bool full)
{
    std::vector<std::vector<uint64_t>> L;
    for (int i = 0; i < d.arity; ++i)
    {
        if (d.kind[i] == K_MASK)
            L.push_back({ 0, 1 });
        else if (d.kind[i] == K_COUNT)
            L.push_back(count_list(t));
        else if (d.kind[i] == K_IEXP)
        {
            const int emax = t == F32 ? 127 : 1023, emin = t == F32 ? -126 : -1022;
            std::vector<uint64_t> e;
            for (int v : { emin, emin + 1, emin + 2, -64, -24, -2, -1, 0, 1, 2, 24, 64, emax - 2, emax - 1, emax,
                           emin - 1, emin - 2, emin - 25, emax + 1, emax + 2, 2 * emax, -2 * emax, 100000, -100000 })
                e.push_back((uint64_t)(int64_t)v);
            if (t == F64)
                for (int64_t v : { ((int64_t)1 << 32) + 1, -((int64_t)1 << 32) - 3 })
                    e.push_back((uint64_t)v);
            L.push_back(e);
        }
        else
        {
            L.push_back(full ? full_list(t) : lattice(t));
            if (!full && d.family == "conv" && !tfloat(t) && tbits(t) >= 32)
            {
                // integer sources of a conversion: values around the rounding decision of a 24- / 53-bit significand
                auto& v = L.back();
                const uint64_t m = tmask(t);
                std::vector<uint64_t> e;
                if (tbits(t) == 64)
                    for (int k : { 52, 53, 54, 62, 63, 64 })
                    {
                        const uint64_t b2 = k == 64 ? 0 : 1ull << k;
                        const uint64_t q = 1ull << (k > 53 ? k - 53 : 0); // spacing of doubles below 2^k
                        for (uint64_t dlt : { (uint64_t)1, q / 2, q / 2 + 1, q, q + q / 2, 2 * q - 1 })
                            if (dlt)
                            {
                                e.push_back(b2 - dlt);
                                e.push_back(b2 + dlt);
                            }
                    }
                for (int k : { 24, 25, 26, 31, 32 })
                    if (k <= tbits(t))
                    {
                        const uint64_t b2 = k == 64 ? 0 : 1ull << k;
                        const uint64_t q = 1ull << (k > 24 ? k - 24 : 0);
                        for (uint64_t dlt : { (uint64_t)1, q / 2, q / 2 + 1, q, q + q / 2 })
                            if (dlt)
                            {
                                e.push_back(b2 - dlt);
                                e.push_back(b2 + dlt);
                            }
                    }
                for (uint64_t x : e)
                    if (std::find(v.begin(), v.end(), x & m) == v.end())
                        v.push_back(x & m);
            }
        }
    }
    return L;
}
static int nvals(const OpDef& d)
{
    int n = 0;
    for (int i = 0; i < d.arity; ++i)
        if (d.kind[i] == K_VAL)
            ++n;
    return n;
}

// C13 (exact operations): f(x)[k] must be bit-identical to f(broadcast(x[k]))[j] for every lane k and every j.
// No reference model is involved.  Returns true when a violation was recorded.
static bool run_case_c13(Context& cx, const ElemCase& c, const Resolved& r)
{
    const OpDef& d = *c.op;
    cx.st.evaluations++;
    bool failed = false;
    bool distinct_lanes = false;
    for (size_t k = 0; k < r.tg.size(); ++k)
    {
        const Target& tg = *r.tg[k];
        const xsv_entry* e = r.e[k];
        const int n = e->lanes;
        const int ob = d.out == O_BOOL ? 1 : kTypeBytes[d.out_type[c.type]];
        unsigned char full[128], bc[128];
        exec_raw(cx, c, tg, e, full);
        for (int l = 0; l < n; ++l)
        {
            if (l > 0)
                for (int i = 0; i < d.arity; ++i)
                    if (memcmp(c.in[i], c.in[i] + (size_t)l * in_stride(d, i, c.type), in_stride(d, i, c.type)))
                        distinct_lanes = true;
            ElemCase b = broadcast_lane(c, l);
            exec_raw(cx, b, tg, e, bc);
            cx.st.lane_checks++;
            int bad = -1;
            const TypeId otype = d.out == O_BOOL ? U8 : d.out_type[c.type];
            for (int j = 0; j < n && bad < 0; ++j)
                if (memcmp(bc + (size_t)j * ob, full + (size_t)l * ob, ob) != 0)
                {
                    // two NaN results are the same result: which operand's payload survives when both operands are NaN is
                    // not fixed by IEEE-754 and C02 compares NaN results as "is NaN" (DESIGN 6.3)
                    bool bothnan = false;
                    if (otype == F32)
                    {
                        float x, y;
                        memcpy(&x, bc + (size_t)j * ob, 4);
                        memcpy(&y, full + (size_t)l * ob, 4);
                        bothnan = x != x && y != y;
                    }
                    else if (otype == F64)
                    {
                        double x, y;
                        memcpy(&x, bc + (size_t)j * ob, 8);
                        memcpy(&y, full + (size_t)l * ob, 8);
                        bothnan = x != x && y != y;
                    }
                    if (!bothnan)
                        bad = j;
                }
            if (bad >= 0)
            {
                TypeId ot = d.out == O_BOOL ? U8 : d.out_type[c.type];
                Violation v = make_violation(cx, c, tg, e, l, bc + (size_t)bad * ob, full + (size_t)l * ob,
                                             "lane " + std::to_string(l) + " of f(x) differs from lane " + std::to_string(bad) + " of f(broadcast(x[" + std::to_string(l) + "])): the result depends on the neighbours or on the lane position");
                (void)ot;
                v.kind = "elem_c13";
                cx.add_violation(v, true);
                failed = true;
                break;
            }
        }
    }
    if (distinct_lanes)
    {
        uint64_t h = hash_str(d.name, c.type * 1315423911u + (uint64_t)c.imm);
        for (int i = 0; i < d.arity; ++i)
            h = hash_bytes(c.in[i], 64, h);
        cx.st.note_distinct(h);
        record_sample(cx, c, 4, 0);
        cx.st.classes["lanes_distinct"]++;
    }
    else
        cx.st.classes["trivial"]++;
    return failed;
}
static void run_group_c13(Context& cx, const Group& g, const Resolved& r)
{
    const OpDef& d = *g.d;
    const TypeId t = g.t;
    // rapidcheck cases (independent random lanes from the type's value mixture) ...
    rc::detail::TestParams params = rc::detail::configuration().testParams;
    params.seed = mix64(params.seed ^ hash_str(d.name, t) ^ 0xC13);
    params.maxSuccess = (int)std::max<long>(1, cx.opt.budget);
    rc::detail::TestMetadata md;
    md.id = d.name + ":" + kTypeNames[t];
    md.description = md.id;
    auto res = rc::detail::checkTestable(
        [&]() {
            ElemCase c = gen_case(d, t);
            if (g_case_filter)
                g_case_filter(c);
            cx.st.per_group[md.id]++;
            RC_ASSERT(!run_case_c13(cx, c, r));
        },
        md, params);
    (void)res;
    // ... and lattice tuples packed into consecutive lanes (first rotation only)
    auto L = value_lists(d, t, false);
    uint64_t total = 1;
    for (auto& l : L)
        total *= l.size();
    const uint64_t cap = cx.opt.thorough() ? 20000 : 1500;
    const uint64_t stride = total > cap ? (total / cap) | 1 : 1;
    auto imms = imm_values(d, t);
    if (imms.size() > 4)
        imms = { imms.front(), imms[1], imms[imms.size() / 2], imms.back() };
    auto groups = by_lanes(r);
    for (auto& gr : groups)
        for (int64_t imm : imms)
        {
            const int n = gr.first;
            for (uint64_t base = mix64(cx.opt.seed) % stride; base < total; base += stride * n)
            {
                ElemCase c;
                c.op = &d;
                c.type = t;
                c.imm = imm;
                for (int l = 0; l < n; ++l)
                {
                    uint64_t ti = (base + (uint64_t)l * stride) % total;
                    for (int i = d.arity - 1; i >= 0; --i)
                    {
                        put_lane(c.in[i], in_stride(d, i, t), l, L[i][ti % L[i].size()]);
                        ti /= L[i].size();
                    }
                }
                if (g_case_filter)
                    g_case_filter(c);
                run_case_c13(cx, c, gr.second);
            }
        }
}

// `mine`: this worker owns the group's light part (lattice products, mask enumeration, rapidcheck);
// the heavy enumerations are sliced over all workers.
static void run_group(Context& cx, const Group& g, const Resolved& r, bool mine)
{
    const OpDef& d = *g.d;
    const TypeId t = g.t;
    const bool thorough = cx.opt.thorough();
    const uint64_t seed = cx.opt.seed;
    const int W = cx.opt.worker, NW = cx.opt.nworkers;
    auto imms = imm_values(d, t);
    const int bits = tbits(t);
    bool all_masks = true;
    for (int i = 0; i < d.arity; ++i)
        all_masks = all_masks && d.kind[i] == K_MASK;
    if (all_masks)
    {
        if (!mine)
            return;
        sweep_masks(cx, d, t, r, thorough ? 18 : 16);
        if (cx.opt.budget > 0)
            rc_group(cx, d, t, r, cx.opt.budget * 4);
        return;
    }
    // 1. lattice product, every lane position
    if (mine)
    {
        auto L = value_lists(d, t, false);
        uint64_t total = 1;
        for (auto& l : L)
            total *= l.size();
        uint64_t stride = 1;
        const uint64_t cap = cx.termination_only ? (thorough ? 300000 : 30000) : (thorough ? 4000000 : 300000);
        if (total > cap)
            stride = (total / cap) | 1;
        sweep_product(cx, d, t, r, L, stride, mix64(seed), 64, imms);
        cx.st.cls("sweep_lattice_tuples", total / stride);
    }
    if (cx.termination_only)
    {
        // C14 stage: every exact operation is *executed* on the boundary lattice at every lane position and on rapidcheck cases;
        // only a call that does not return (crash, or still running after kHangSeconds of CPU time) is reported
        if (mine && cx.opt.budget > 0)
            rc_group(cx, d, t, r, cx.opt.budget);
        return;
    }
    // 2. exhaustive / strided full enumeration for small integer types (sliced over the workers when large)
    if (!tfloat(t) && bits <= 16 && !(d.cheap_only && bits == 16))
    {
        const int nv = nvals(d);
        auto L = value_lists(d, t, true);
        uint64_t total = 1;
        for (auto& l : L)
            total *= l.size();
        uint64_t cap = thorough ? (1ull << 26) : (1ull << 20);
        if (cx.opt.prop == "C17" && !thorough)
            cap = 1ull << 17; // C17 runs 24 targets per case (scalar + batch): the dense sweeps belong to C01/C07
        cap *= (uint64_t)std::max<long>(1, cx.opt.sweep);
        if (nv <= 2 || bits == 8)
        {
            uint64_t stride = 1;
            if (total > cap)
                stride = (total / cap) | 1;
            int rot = stride == 1 && total * imms.size() <= (1u << 16) ? 64 : (thorough ? 2 : (stride == 1 ? 2 : 1));
            if (nv >= 3)
                rot = 1;
            const bool heavy = total / stride * imms.size() > (1u << 18);
            if (heavy)
                sweep_product(cx, d, t, r, L, stride, mix64(seed ^ 0x77), rot, imms, W, NW);
            else if (mine)
                sweep_product(cx, d, t, r, L, stride, mix64(seed ^ 0x77), rot, imms);
            if (mine)
                cx.st.cls(stride == 1 ? "sweep_full_exhaustive_groups" : "sweep_full_strided_groups");
        }
    }
    // 2b. floating unary ops: dense boundary list; float32 additionally every k-th bit pattern (thorough: all)
    if (tfloat(t) && d.arity == 1 && d.kind[0] == K_VAL)
    {
        if (mine)
        {
            auto U = fp_unary_list(t);
            sweep_product(cx, d, t, r, { U }, 1, 0, 2, imms);
        }
        if (t == F32 && !d.cheap_only)
        {
            const uint64_t stride = thorough ? 7 : (cx.opt.prop == "C17" ? 2053 : 257); // --sweep-all (stride 1) is not offered: 2^32 x ops x 22 targets takes hours
            const uint64_t count = (1ull << 32) / stride;
            sweep_range(cx, d, t, r, thorough ? 0 : mix64(seed) % stride, stride, count, W, NW);
            if (mine)
                cx.st.cls(thorough ? "f32_unary_exhaustive_groups" : "f32_unary_strided_groups");
        }
    }
    // 3. rapidcheck
    if (mine && cx.opt.budget > 0)
        rc_group(cx, d, t, r, cx.opt.budget);
}

int main(int argc, char** argv)
{
    Context cx;
    cx.opt = parse_options(argc, argv);
    g_ctx() = &cx;
    install_crash_handlers();
    if (!fpenv_ok())
    {
        fprintf(stderr, "floating-point environment is not the default\n");
        return 2;
    }
    register_int_ops();
    register_fp_ops();
    register_logic_ops();
    register_scalar_ops();
    install_known(cx.opt);
    g_case_filter = sanitize;

    const std::string prop = cx.opt.prop;
    const bool scalar = prop == "C17";
    const bool c13 = prop == "C13";
    const bool c14 = prop == "C14";
    cx.termination_only = c14 && cx.opt.replay.empty();
    // ops of this property
    std::vector<const OpDef*> ops;
    for (auto& d : op_registry())
    {
        bool take = scalar ? scalar_op_claimed(d) : (c13 ? (scalar_op_claimed(d) && d.family != "scalar") : (c14 ? d.family != "scalar" : d.prop == prop));
        if (!cx.opt.only_ops.empty())
            take = take && cx.opt.only_ops.count(d.name);
        if (take && cx.opt.replay.empty())
            ops.push_back(&d);
    }
    std::set<std::string> fams;
    for (auto* d : ops)
    {
        if (scalar)
        {
            // C17 runs every case on the scalar overloads and on the batch kernels of all targets, judged by the same oracle
            // (ipow, which has no exact oracle, additionally by bit-agreement): a divergence on either side shows
            fams.insert("scalar");
            fams.insert(d->family);
        }
        else
            fams.insert(d->family);
    }
    std::map<std::string, std::vector<Target>> targets;
    for (auto& f : fams)
        targets[f] = load_targets(cx.opt, f);
    auto resolve_for = [&](const OpDef& d, TypeId t) {
        if (!scalar)
            return resolve(targets[d.family], d, t);
        Resolved r = resolve(targets["scalar"], d, t);
        if (!r.tg.empty() && d.family != "scalar")
        {
            Resolved b = resolve(targets[d.family], d, t);
            r.tg.insert(r.tg.end(), b.tg.begin(), b.tg.end());
            r.e.insert(r.e.end(), b.e.begin(), b.e.end());
        }
        return r;
    };

    if (!cx.opt.replay.empty())
    {
        const OpDef* d = cx.opt.replay.size() > 1 ? find_op(cx.opt.replay[0], type_from_name(cx.opt.replay[1]), cx.opt.prop) : nullptr;
        if (!d)
        {
            fprintf(stderr, "unknown op\n");
            return 2;
        }
        const std::string fam = scalar ? "scalar" : d->family;
        if (!targets.count(fam))
            targets[fam] = load_targets(cx.opt, fam);
        if (scalar && d->family != "scalar")
        {
            // replay on the scalar targets and the batch targets together
            std::vector<Target> all = targets[fam];
            auto b = load_targets(cx.opt, d->family);
            all.insert(all.end(), b.begin(), b.end());
            return replay_case(cx, all, cx.opt.replay);
        }
        if (c13)
        {
            const auto& tok = cx.opt.replay;
            if (tok.size() < 5)
                return 2;
            ElemCase c;
            c.op = d;
            c.type = type_from_name(tok[1]);
            c.imm = atoll(tok[3].c_str());
            for (size_t i = 4; i < tok.size() && i - 4 < 4; ++i)
            {
                auto b = unhex(tok[i]);
                memcpy(c.in[i - 4], b.data(), std::min<size_t>(b.size(), 64));
            }
            Resolved r;
            for (auto& tg : targets[fam])
                if (tok[2] == "*" || tok[2] == tg.name)
                    if (const xsv_entry* e = tg.find(d->name, kTypeNames[c.type]))
                    {
                        r.tg.push_back(&tg);
                        r.e.push_back(e);
                    }
            bool failed = !r.tg.empty() && run_case_c13(cx, c, r);
            printf(failed ? "REPLAY-FAIL %s\n" : "REPLAY-PASS%s\n", failed ? cx.violations[0].to_json().c_str() : "");
            return failed ? 1 : 0;
        }
        return replay_case(cx, targets[fam], cx.opt.replay);
    }

    std::vector<Group> groups;
    for (auto* d : ops)
        for (int t = 0; t < NT; ++t)
        {
            if (!d->judge[t])
                continue;
            if (!cx.opt.only_types.empty() && !cx.opt.only_types.count(kTypeNames[t]))
                continue;
            groups.push_back({ d, (TypeId)t });
        }
    // deterministic shuffle so that expensive types spread over workers
    {
        std::vector<std::pair<uint64_t, Group>> tmp;
        for (size_t i = 0; i < groups.size(); ++i)
            tmp.push_back({ mix64(i * 2654435761u + 12345), groups[i] });
        std::sort(tmp.begin(), tmp.end(), [](auto& a, auto& b) { return a.first < b.first; });
        for (size_t i = 0; i < groups.size(); ++i)
            groups[i] = tmp[i].second;
    }
    size_t done = 0;
    for (size_t i = 0; i < groups.size(); ++i)
    {
        const bool mine = (int)(i % cx.opt.nworkers) == cx.opt.worker;
        const Group& g = groups[i];
        Resolved r = resolve_for(*g.d, g.t);
        if (r.tg.empty())
        {
            if (mine)
                cx.st.notes.push_back("no target implements " + g.d->name + ":" + kTypeNames[g.t]);
            continue;
        }
        if (mine)
            for (auto* tg : r.tg)
                cx.st.per_target[tg->name]++;
        if (c13)
        {
            if (mine)
                run_group_c13(cx, g, r);
        }
        else
            run_group(cx, g, r, mine);
        if (++done % 16 == 0)
            cx.write_out();
    }
    cx.st.classes["sanitized_divisors"] = g_sanitized;
    cx.write_out();
    return cx.violations.empty() ? 0 : 1;
}
