// C04 (and the converting load_as/store_as part of C06): loads/stores transfer exactly one register.
// The buffer under test lives in a guard-page arena: [PROT_NONE][2 RW pages][PROT_NONE]; it is placed ending
// exactly at the upper guard, starting exactly at the lower guard, and at every element-aligned offset of a
// cache line.  A load/store that touches a byte outside [p, p+size) either faults (caught, reported) or
// destroys a canary (stores) .  Values are compared with a memcpy / static_cast model.
#include <algorithm>
#include <rapidcheck.h>
#include <sys/mman.h>

#include "ops_logic.hpp" // cast_model
#include "xsv.hpp"

using namespace xsv;

static unsigned char* g_region = nullptr; // start of the RW area
static const size_t kRW = 8192;
static sigjmp_buf g_jmp;
static volatile sig_atomic_t g_armed = 0;
static void* g_fault_addr = nullptr;

static void segv_handler(int sig, siginfo_t* si, void*)
{
    if (g_armed)
    {
        g_fault_addr = si->si_addr;
        g_armed = 0;
        siglongjmp(g_jmp, sig);
    }
    crash_handler(sig);
}
static void setup_arena()
{
    const size_t page = 4096;
    unsigned char* base = (unsigned char*)mmap(nullptr, kRW + 2 * page, PROT_NONE, MAP_PRIVATE | MAP_ANONYMOUS, -1, 0);
    if (base == MAP_FAILED)
    {
        perror("mmap");
        exit(2);
    }
    g_region = base + page;
    mprotect(g_region, kRW, PROT_READ | PROT_WRITE);
    struct sigaction sa;
    memset(&sa, 0, sizeof sa);
    sa.sa_sigaction = segv_handler;
    sa.sa_flags = SA_SIGINFO | SA_ONSTACK | SA_NODEFER;
    sigaction(SIGSEGV, &sa, nullptr);
    sigaction(SIGBUS, &sa, nullptr);
}

struct OpInfo
{
    enum Kind
    {
        LOAD,
        STORE,
        BOOL_LOAD,
        BOOL_STORE,
        GATHER,
        SCATTER,
        BROADCAST,
        CTOR,
        CTOR_BOOL,
        GET,
        INSERT,
        CLOAD,
        CSTORE,
        CLOAD_SPLIT,
        CSTORE_SPLIT,
        NONE
    } kind
        = NONE;
    bool aligned = false;
    TypeId reg = I8, mem = I8; // register element type, memory element type
    bool idx_signed = true;
};
static OpInfo parse_op(const std::string& op, TypeId t)
{
    OpInfo o;
    o.reg = o.mem = t;
    auto ends = [&](const char* s) { size_t n = strlen(s); return op.size() >= n && op.compare(op.size() - n, n, s) == 0; };
    o.aligned = ends("_a");
    if (op.rfind("load_as_", 0) == 0 || op.rfind("store_as_", 0) == 0)
    {
        o.kind = op[0] == 'l' ? OpInfo::LOAD : OpInfo::STORE;
        size_t b = op.find("_as_") + 4, e = op.rfind('_');
        o.mem = type_from_name(op.substr(b, e - b));
    }
    else if (op.rfind("gather_as_", 0) == 0 || op.rfind("scatter_as_", 0) == 0)
    {
        o.kind = op[0] == 'g' ? OpInfo::GATHER : OpInfo::SCATTER;
        size_t b = op.find("_as_") + 4, e = op.rfind('_');
        o.mem = type_from_name(op.substr(b, e - b));
        o.idx_signed = true;
        o.aligned = false;
    }
    else if (op.rfind("load_", 0) == 0)
        o.kind = OpInfo::LOAD;
    else if (op.rfind("store_", 0) == 0)
        o.kind = OpInfo::STORE;
    else if (op.rfind("bool_load", 0) == 0)
        o.kind = OpInfo::BOOL_LOAD;
    else if (op.rfind("bool_store", 0) == 0)
        o.kind = OpInfo::BOOL_STORE;
    else if (op.rfind("gather_", 0) == 0)
    {
        o.kind = OpInfo::GATHER;
        o.idx_signed = op.back() == 'i';
        o.aligned = false;
    }
    else if (op.rfind("scatter_", 0) == 0)
    {
        o.kind = OpInfo::SCATTER;
        o.idx_signed = op.back() == 'i';
        o.aligned = false;
    }
    else if (op == "broadcast" || op == "broadcast_fn")
        o.kind = OpInfo::BROADCAST;
    else if (op == "ctor_list")
        o.kind = OpInfo::CTOR;
    else if (op == "ctor_list_bool")
        o.kind = OpInfo::CTOR_BOOL;
    else if (op == "get")
        o.kind = OpInfo::GET;
    else if (op == "insert")
        o.kind = OpInfo::INSERT;
    else if (op == "cload_split_u")
        o.kind = OpInfo::CLOAD_SPLIT;
    else if (op == "cstore_split_u")
        o.kind = OpInfo::CSTORE_SPLIT;
    else if (op.rfind("cload", 0) == 0)
        o.kind = OpInfo::CLOAD;
    else if (op.rfind("cstore", 0) == 0)
        o.kind = OpInfo::CSTORE;
    return o;
}

// ---------------------------------------------------------------- value conversion through the cast model
template <class From>
static bool conv_to(TypeId to, From v, unsigned char* out)
{
    switch (to)
    {
#define CT(TID, T)                      \
    case TID:                           \
    {                                   \
        T r;                            \
        if (!cast_model<From, T>(v, r)) \
            return false;               \
        memcpy(out, &r, sizeof r);      \
        return true;                    \
    }
        CT(I8, int8_t)
        CT(U8, uint8_t) CT(I16, int16_t) CT(U16, uint16_t) CT(I32, int32_t) CT(U32, uint32_t) CT(I64, int64_t) CT(U64, uint64_t) CT(F32, float) CT(F64, double)
#undef CT
    default: return false;
    }
}
// converts one element (bit image) from type `from` to type `to`; false when not representable
static bool convert_elem(TypeId from, TypeId to, const unsigned char* in, unsigned char* out)
{
    switch (from)
    {
#define CF(TID, T)                  \
    case TID:                       \
    {                               \
        T v;                        \
        memcpy(&v, in, sizeof v);   \
        return conv_to<T>(to, v, out); \
    }
        CF(I8, int8_t)
        CF(U8, uint8_t) CF(I16, int16_t) CF(U16, uint16_t) CF(I32, int32_t) CF(U32, uint32_t) CF(I64, int64_t) CF(U64, uint64_t) CF(F32, float) CF(F64, double)
#undef CF
    default: return false;
    }
}
static bool same_elem(TypeId t, const unsigned char* a, const unsigned char* b)
{
    if (t == F32)
    {
        float x, y;
        memcpy(&x, a, 4);
        memcpy(&y, b, 4);
        if (x != x && y != y)
            return true;
    }
    if (t == F64)
    {
        double x, y;
        memcpy(&x, a, 8);
        memcpy(&y, b, 8);
        if (x != x && y != y)
            return true;
    }
    return memcmp(a, b, kTypeBytes[t]) == 0;
}

// element values of type `t` suited to a conversion into `to` (representable most of the time), payload class k
static void gen_elem(TypeId t, TypeId to, int k, uint64_t r, unsigned char* out)
{
    const int eb = kTypeBytes[t];
    const bool tf = t == F32 || t == F64, of = to == F32 || to == F64;
    if (t == to || k == 0)
    {
        uint64_t v = r; // raw bit patterns (NaN payloads, signalling NaNs, -0, MIN ...)
        memcpy(out, &v, eb);
        return;
    }
    if (tf)
    {
        // floating source: integers and fractions that fit every destination, sign according to destination
        const bool uns = to == U8 || to == U16 || to == U32 || to == U64;
        const int lim = (to == I8) ? 127 : (to == U8 ? 255 : 30000);
        double v = (double)(int64_t)(r % (uint64_t)(2 * lim + 1)) - lim + (double)((r >> 40) & 3) * 0.25;
        if (uns && v < 0)
            v = -v;
        if (v > lim)
            v = lim;
        if (k == 2 && of)
            v = std::ldexp(v, (int)((r >> 50) % 40) - 20);
        if (t == F32)
        {
            float f = (float)v;
            memcpy(out, &f, 4);
        }
        else
            memcpy(out, &v, 8);
        return;
    }
    // integer source: any value (integer->integer wraps, integer->float rounds: always representable)
    uint64_t v = k == 1 ? r : (r % 257) - 128;
    memcpy(out, &v, eb);
}

struct MemCase
{
    std::string op;
    TypeId type;
    size_t offset = 0; // byte offset of the buffer in the RW area
    std::string place; // placement class
    uint64_t seed = 0;
    int payload = 0;
    std::vector<int64_t> idx; // gather/scatter
    int64_t imm = 0;
};
static std::string g_viol_prop = "C04"; // the property the running check decides (C04, C06 via load_as/store_as, C16 via complex forms)
static Violation mkviol(const MemCase& c, const Target& tg, int lane, const std::string& exp, const std::string& got, const std::string& why)
{
    Violation v;
    v.kind = "mem";
    v.prop = g_viol_prop;
    v.op = c.op;
    v.type = kTypeNames[c.type];
    v.target = tg.name;
    v.lane = lane;
    v.imm[0] = (int64_t)c.offset;
    v.imm[1] = c.imm;
    std::string ix;
    for (auto i : c.idx)
        ix += std::to_string(i) + ",";
    v.in_hex = { std::to_string(c.seed), std::to_string(c.payload), (ix.empty() && c.imm == 0) ? "-" : std::to_string(c.imm) + ":" + ix };
    v.expected = exp;
    v.got = got;
    v.why = why + " [placement " + c.place + ", offset " + std::to_string(c.offset) + "]";
    return v;
}

static uint64_t g_align_cache = 0;
static uint64_t target_alignment(const Target& tg, const char* tname)
{
    const xsv_entry* e = tg.find("alignment", tname);
    uint64_t v = 16;
    if (e)
    {
        xsv_args a;
        memset(&a, 0, sizeof a);
        a.out[0] = &v;
        e->fn(&a);
    }
    return v ? v : 1;
}

// run one case; returns true if it passed
// ---------------------------------------------------------------- gather / scatter with indices at the ends of the index type
// A 64 GiB PROT_NONE reservation (no memory is committed); the base pointer sits in its middle, so every index the index
// type can hold for 8/16/32-bit lanes, and 64-bit indices up to +-2^32, address a byte of the reservation.  Only the pages
// of the indexed elements are made accessible for the duration of one case: an index that is truncated, sign-extended the
// wrong way or scaled in too narrow an integer lands on an inaccessible page (fault, reported) or on another element.
static unsigned char* g_far_center = nullptr;
static const int64_t kFarHalf = (int64_t)1 << 35;
static bool far_setup()
{
    if (g_far_center)
        return true;
    void* b = mmap(nullptr, (size_t)2 * kFarHalf + 65536, PROT_NONE, MAP_PRIVATE | MAP_ANONYMOUS | MAP_NORESERVE, -1, 0);
    if (b == MAP_FAILED)
        return false; // address-space limit: the far cases are skipped (counted), never reported
    g_far_center = (unsigned char*)b + kFarHalf + 4096;
    return true;
}
static bool is_far_case(const MemCase& c, int rb)
{
    if (c.payload == 9 || c.payload == 8) // the extreme-index class and the converting gathers mark their cases
        return true;
    for (auto i : c.idx)
        if (i < 0 || (uint64_t)i * (uint64_t)rb >= kRW)
            return true;
    return false;
}
static bool exec_far(Context& cx, const MemCase& c, const Target& tg, const xsv_entry* e, const OpInfo& oi)
{
    const int n = e->lanes;
    const int rb = kTypeBytes[oi.reg];
    const int mb = kTypeBytes[oi.mem]; // memory element (differs from the lane for the converting forms)
    const bool conv = oi.mem != oi.reg;
    if (!far_setup())
    {
        cx.st.cls("far_index_cases_skipped_no_address_space");
        return true;
    }
    alignas(64) unsigned char img[256], out[256], idximg[256];
    memset(out, 0xCD, sizeof out);
    std::vector<unsigned char*> pages;
    auto open_elem = [&](int64_t idx) {
        unsigned char* a0 = g_far_center + idx * (int64_t)mb;
        for (unsigned char* pg = (unsigned char*)((uintptr_t)a0 & ~(uintptr_t)4095); pg <= (unsigned char*)((uintptr_t)(a0 + mb - 1) & ~(uintptr_t)4095); pg += 4096)
            if (std::find(pages.begin(), pages.end(), pg) == pages.end())
            {
                mprotect(pg, 4096, PROT_READ | PROT_WRITE);
                for (size_t k = 0; k < 4096; k += 8)
                {
                    uint64_t w = mix64(c.seed + (uint64_t)(uintptr_t)(pg + k));
                    memcpy(pg + k, &w, 8);
                }
                pages.push_back(pg);
            }
    };
    for (int i = 0; i < n; ++i)
    {
        int64_t v = c.idx[i];
        memcpy(idximg + (size_t)i * rb, &v, rb);
        open_elem(c.idx[i]);
    }
    if (conv && oi.kind == OpInfo::GATHER)
        for (int i = 0; i < n; ++i) // source elements that the lane type can represent
            gen_elem(oi.mem, oi.reg, 1 + (int)(c.seed % 2), mix64(c.seed * 977 + (uint64_t)c.idx[i]), g_far_center + c.idx[i] * (int64_t)mb);
    xsv_args a;
    memset(&a, 0, sizeof a);
    a.in[1] = idximg;
    cx.current_valid = true;
    cx.current = mkviol(c, tg, -1, "", "", "");
    std::string why, exp, got;
    int lane = -1;
    bool ok = true;
    bool known_hit = false;
    auto run = [&]() -> bool {
        g_armed = 1;
        if (sigsetjmp(g_jmp, 1) == 0)
        {
            e->fn(&a);
            g_armed = 0;
            return true;
        }
        char b[96];
        snprintf(b, sizeof b, "%p", g_fault_addr);
        const long long d = (long long)((unsigned char*)g_fault_addr - g_far_center);
        // D34 (open): the hardware gathers/scatters of AVX2 / AVX-512 read their 32-bit indices as signed; an unsigned 32-bit
        // index >= 2^31 addresses base + (int32)index * 4.  Inside the class the fault must be exactly at that element.
        if (cx.opt.known.count("gather_index32_signed") && !oi.idx_signed && rb == 4)
            for (int i = 0; i < n; ++i)
                if (c.idx[i] >= ((int64_t)1 << 31) && d >= (long long)(int32_t)(uint32_t)c.idx[i] * 4 && d < (long long)(int32_t)(uint32_t)c.idx[i] * 4 + 4)
                {
                    cx.st.known_hits++;
                    cx.st.known_by_class["gather_index32_signed"]++;
                    known_hit = true;
                    return false;
                }
        why = std::string("memory fault at ") + b + " = base" + (d >= 0 ? "+" : "") + std::to_string(d) + " bytes: none of the indexed elements lives there (indices are " + (oi.idx_signed ? "signed " : "unsigned ") + std::to_string(8 * rb) + "-bit values)";
        return false;
    };
    if (oi.kind == OpInfo::GATHER)
    {
        a.in[0] = g_far_center;
        a.out[0] = out;
        ok = run();
        for (int i = 0; ok && i < n; ++i)
        {
            cx.st.lane_checks++;
            const unsigned char* src = g_far_center + c.idx[i] * (int64_t)mb;
            unsigned char cvt[8];
            if (conv)
            {
                if (!convert_elem(oi.mem, oi.reg, src, cvt))
                    continue; // not representable in the lane type: outside the claim
                src = cvt;
            }
            if (memcmp(out + (size_t)i * rb, src, rb))
            {
                ok = false;
                lane = i;
                exp = lane_str(oi.reg, src);
                got = lane_str(oi.reg, out + (size_t)i * rb);
                why = "gathered lane " + std::to_string(i) + " is not src[" + std::to_string(c.idx[i]) + "]";
            }
        }
    }
    else
    {
        unsigned char mimg[512]; // what each lane must leave in memory
        bool judged[64];
        for (int i = 0; i < n; ++i)
        {
            uint64_t v = mix64(c.seed * 131 + i) | 1;
            memcpy(img + (size_t)i * rb, &v, rb);
            judged[i] = true;
            if (conv)
            {
                gen_elem(oi.reg, oi.mem, 1 + (int)(c.seed % 2), mix64(c.seed * 977 + i), img + (size_t)i * rb);
                judged[i] = convert_elem(oi.reg, oi.mem, img + (size_t)i * rb, mimg + (size_t)i * mb);
            }
            else
                memcpy(mimg + (size_t)i * mb, img + (size_t)i * rb, mb);
        }
        a.in[0] = img;
        a.out[0] = g_far_center;
        ok = run();
        // expected content of every opened page: its pattern, with the indexed elements replaced
        for (size_t pi = 0; ok && pi < pages.size(); ++pi)
        {
            unsigned char want[4096];
            for (size_t k = 0; k < 4096; k += 8)
            {
                uint64_t w = mix64(c.seed + (uint64_t)(uintptr_t)(pages[pi] + k));
                memcpy(want + k, &w, 8);
            }
            for (int i = 0; i < n; ++i)
                for (int b = 0; b < mb; ++b)
                {
                    unsigned char* ad = g_far_center + c.idx[i] * (int64_t)mb + b;
                    if (ad >= pages[pi] && ad < pages[pi] + 4096)
                        want[ad - pages[pi]] = judged[i] ? mimg[(size_t)i * mb + b] : *ad; // an unrepresentable lane may store anything
                }
            cx.st.lane_checks++;
            if (memcmp(want, pages[pi], 4096))
            {
                ok = false;
                why = "scatter: a byte of the page at base" + std::to_string((long long)(pages[pi] - g_far_center)) + " is wrong (exactly the indexed elements must change)";
            }
        }
    }
    g_armed = 0;
    for (auto pg : pages)
    {
        madvise(pg, 4096, MADV_DONTNEED);
        mprotect(pg, 4096, PROT_NONE);
    }
    cx.current_valid = false;
    cx.st.executions++;
    if (known_hit)
        return true;
    if (!ok)
        cx.add_violation(mkviol(c, tg, lane, exp, got, why));
    return ok;
}

static bool exec_case(Context& cx, const MemCase& c, const Target& tg, const xsv_entry* e)
{
    const OpInfo oi = parse_op(c.op, c.type);
    const int n = e->lanes;
    const int rb = c.type == C32 ? 4 : (c.type == C64 ? 8 : kTypeBytes[oi.reg]); // scalar component size for complex
    if ((oi.kind == OpInfo::GATHER || oi.kind == OpInfo::SCATTER) && is_far_case(c, rb))
        return exec_far(cx, c, tg, e, oi);
    const int mb = kTypeBytes[oi.mem];
    unsigned char* R = g_region;
    alignas(64) unsigned char img[256], out[256];
    memset(img, 0, sizeof img);
    memset(out, 0xCD, sizeof out);
    // pattern of the RW area / canary
    for (size_t i = 0; i < kRW; i += 8)
    {
        uint64_t w = mix64(c.seed + i);
        memcpy(R + i, &w, 8);
    }
    unsigned char* p = R + c.offset;
    xsv_args a;
    memset(&a, 0, sizeof a);
    a.imm[0] = c.imm;
    cx.current_valid = true;
    cx.current = mkviol(c, tg, -1, "", "", "");
    std::string why, exp, got;
    int lane = -1;
    bool ok = true;
    auto run = [&]() -> bool {
        g_armed = 1;
        if (sigsetjmp(g_jmp, 1) == 0)
        {
            e->fn(&a);
            g_armed = 0;
            return true;
        }
        char b[96];
        snprintf(b, sizeof b, "%p", g_fault_addr);
        long d = (long)((unsigned char*)g_fault_addr - p);
        why = std::string("memory fault at ") + b + " = buffer" + (d >= 0 ? "+" : "") + std::to_string(d) + ": the operation touched a byte outside the buffer it was given";
        return false;
    };
    auto canary_ok = [&](size_t lo, size_t hi, size_t lo2 = 0, size_t hi2 = 0) -> bool {
        for (size_t i = 0; i < kRW; ++i)
        {
            if ((i >= lo && i < hi) || (i >= lo2 && i < hi2))
                continue;
            unsigned char expc = (unsigned char)(mix64(c.seed + (i & ~(size_t)7)) >> ((i & 7) * 8));
            if (R[i] != expc)
            {
                why = "byte at buffer" + std::string((long)i - (long)c.offset >= 0 ? "+" : "") + std::to_string((long)i - (long)c.offset) + " outside the destination range was modified";
                return false;
            }
        }
        return true;
    };
    switch (oi.kind)
    {
    case OpInfo::LOAD:
    {
        // memory: n elements of oi.mem
        for (int i = 0; i < n; ++i)
            gen_elem(oi.mem, oi.reg, c.payload, mix64(c.seed * 31 + i), p + (size_t)i * mb);
        a.in[0] = p;
        a.out[0] = out;
        ok = run();
        for (int i = 0; ok && i < n; ++i)
        {
            unsigned char ex[8];
            if (!convert_elem(oi.mem, oi.reg, p + (size_t)i * mb, ex))
            {
                cx.st.skipped_lanes++;
                continue;
            }
            cx.st.lane_checks++;
            bool eq = oi.mem == oi.reg ? memcmp(out + (size_t)i * rb, ex, rb) == 0 : same_elem(oi.reg, out + (size_t)i * rb, ex);
            if (!eq)
            {
                ok = false;
                lane = i;
                exp = lane_str(oi.reg, ex);
                got = lane_str(oi.reg, out + (size_t)i * rb);
                why = "lane " + std::to_string(i) + " does not hold memory element " + std::to_string(i) + (oi.mem == oi.reg ? " (bit pattern)" : " converted by static_cast");
            }
        }
        break;
    }
    case OpInfo::STORE:
    {
        for (int i = 0; i < n; ++i)
            gen_elem(oi.reg, oi.mem, c.payload, mix64(c.seed * 31 + i), img + (size_t)i * rb);
        a.in[0] = img;
        a.out[0] = p;
        ok = run();
        for (int i = 0; ok && i < n; ++i)
        {
            unsigned char ex[8];
            if (!convert_elem(oi.reg, oi.mem, img + (size_t)i * rb, ex))
            {
                cx.st.skipped_lanes++;
                continue;
            }
            cx.st.lane_checks++;
            bool eq = oi.mem == oi.reg ? memcmp(p + (size_t)i * mb, ex, mb) == 0 : same_elem(oi.mem, p + (size_t)i * mb, ex);
            if (!eq)
            {
                ok = false;
                lane = i;
                exp = lane_str(oi.mem, ex);
                got = lane_str(oi.mem, p + (size_t)i * mb);
                why = "memory element " + std::to_string(i) + " does not hold lane " + std::to_string(i);
            }
        }
        if (ok)
            ok = canary_ok(c.offset, c.offset + (size_t)n * mb);
        break;
    }
    case OpInfo::BOOL_LOAD:
    {
        for (int i = 0; i < n; ++i)
            p[i] = (mix64(c.seed * 31 + i) >> 7) & 1;
        if (c.payload == 2)
            for (int i = 0; i < n; ++i)
                p[i] = (i == (int)(c.seed % n)) ? 1 : 0;
        a.in[0] = p;
        a.out[0] = out;
        ok = run();
        uint64_t mk = 0;
        memcpy(&mk, out + 64, 8);
        for (int i = 0; ok && i < n; ++i)
        {
            cx.st.lane_checks++;
            if ((out[i] != 0) != (p[i] != 0) || (n <= 64 && ((mk >> i) & 1) != (uint64_t)(p[i] != 0)))
            {
                ok = false;
                lane = i;
                why = "batch_bool lane " + std::to_string(i) + " differs from bool element " + std::to_string(i);
            }
        }
        break;
    }
    case OpInfo::BOOL_STORE:
    {
        uint64_t mk = mix64(c.seed * 77) & (n >= 64 ? ~0ull : ((1ull << n) - 1));
        if (c.payload == 2)
            mk = 1ull << (c.seed % n);
        memcpy(img, &mk, 8);
        a.in[0] = img;
        a.out[0] = p;
        ok = run();
        for (int i = 0; ok && i < n; ++i)
        {
            cx.st.lane_checks++;
            if (p[i] != ((mk >> i) & 1))
            {
                ok = false;
                lane = i;
                exp = std::to_string((mk >> i) & 1);
                got = std::to_string((int)p[i]);
                why = "bool element " + std::to_string(i) + " is not exactly 0/1 = lane " + std::to_string(i);
            }
        }
        if (ok)
            ok = canary_ok(c.offset, c.offset + (size_t)n);
        break;
    }
    case OpInfo::GATHER:
    case OpInfo::SCATTER:
    {
        // the indexed array has len elements and ends at the end of the buffer region given by offset
        const size_t len = c.imm ? (size_t)c.imm : (size_t)n * 2;
        unsigned char idximg[64];
        for (int i = 0; i < n; ++i)
        {
            int64_t v = c.idx[i];
            memcpy(idximg + (size_t)i * rb, &v, rb);
        }
        a.in[1] = idximg;
        if (oi.kind == OpInfo::GATHER)
        {
            a.in[0] = p;
            a.out[0] = out;
            ok = run();
            for (int i = 0; ok && i < n; ++i)
            {
                cx.st.lane_checks++;
                if (memcmp(out + (size_t)i * rb, p + (size_t)c.idx[i] * rb, rb))
                {
                    ok = false;
                    lane = i;
                    exp = lane_str(oi.reg, p + (size_t)c.idx[i] * rb);
                    got = lane_str(oi.reg, out + (size_t)i * rb);
                    why = "gathered lane " + std::to_string(i) + " is not src[" + std::to_string(c.idx[i]) + "]";
                }
            }
        }
        else
        {
            for (int i = 0; i < n; ++i)
            {
                uint64_t v = mix64(c.seed * 131 + i) | 1;
                memcpy(img + (size_t)i * rb, &v, rb);
            }
            std::vector<unsigned char> before(p, p + len * rb);
            a.in[0] = img;
            a.out[0] = p;
            ok = run();
            std::vector<unsigned char> expm(before);
            for (int i = 0; i < n; ++i)
                memcpy(&expm[(size_t)c.idx[i] * rb], img + (size_t)i * rb, rb);
            if (ok && memcmp(p, expm.data(), len * rb))
            {
                ok = false;
                size_t j = 0;
                while (p[j] == expm[j])
                    ++j;
                lane = (int)(j / rb);
                why = "scatter: destination element " + std::to_string(j / rb) + " is wrong (exactly the indexed elements must change)";
            }
            if (ok)
                ok = canary_ok(c.offset, c.offset + len * rb);
        }
        break;
    }
    case OpInfo::BROADCAST:
    {
        uint64_t v = mix64(c.seed);
        memcpy(img, &v, rb);
        a.in[0] = img;
        a.out[0] = out;
        ok = run();
        for (int i = 0; ok && i < n; ++i)
        {
            cx.st.lane_checks++;
            if (memcmp(out + (size_t)i * rb, img, rb))
            {
                ok = false;
                lane = i;
                why = "broadcast: lane " + std::to_string(i) + " does not hold the value";
            }
        }
        break;
    }
    case OpInfo::CTOR:
    case OpInfo::GET:
    {
        for (int i = 0; i < n; ++i)
        {
            uint64_t v = (mix64(c.seed * 31 + i) << 8) | (uint64_t)(i + 1);
            memcpy(img + (size_t)i * rb, &v, rb);
        }
        a.in[0] = img;
        a.out[0] = out;
        ok = run();
        if (oi.kind == OpInfo::CTOR)
        {
            for (int i = 0; ok && i < n; ++i)
            {
                cx.st.lane_checks++;
                if (memcmp(out + (size_t)i * rb, img + (size_t)i * rb, rb))
                {
                    ok = false;
                    lane = i;
                    why = "element-list constructor: argument " + std::to_string(i) + " is not in lane " + std::to_string(i);
                }
            }
        }
        else if (ok)
        {
            cx.st.lane_checks++;
            if (memcmp(out, img + (size_t)c.imm * rb, rb))
            {
                ok = false;
                lane = (int)c.imm;
                why = "get(" + std::to_string(c.imm) + ") does not return lane " + std::to_string(c.imm);
            }
        }
        break;
    }
    case OpInfo::INSERT:
    {
        // insert<i>(x, v): lane i holds v (bit pattern intact), every other lane keeps its content.  v has its top bit set in
        // half of the cases so that a widening of the inserted value into a neighbouring lane shows.
        for (int i = 0; i < n; ++i)
        {
            uint64_t v = (mix64(c.seed * 31 + i) << 8) | (uint64_t)(i + 1);
            memcpy(img + (size_t)i * rb, &v, rb);
        }
        uint64_t val = mix64(c.seed ^ 0x1235) | 1;
        if (c.payload & 1)
            val |= 0x8080808080808080ull;
        else
            val &= 0x7f7f7f7f7f7f7f7full;
        if (c.type == F32 || c.type == F64)
            val = c.type == F32 ? (val & 0xffffffffu) : val; // any bit pattern, NaN payloads included
        unsigned char vb[8];
        memcpy(vb, &val, 8);
        a.in[0] = img;
        a.in[1] = vb;
        a.out[0] = out;
        ok = run();
        for (int i = 0; ok && i < n; ++i)
        {
            cx.st.lane_checks++;
            const unsigned char* want = i == (int)c.imm ? vb : img + (size_t)i * rb;
            if (memcmp(out + (size_t)i * rb, want, rb))
            {
                ok = false;
                lane = i;
                why = i == (int)c.imm ? "insert<" + std::to_string(c.imm) + "> did not place the value (bit pattern) in lane " + std::to_string(c.imm)
                                      : "insert<" + std::to_string(c.imm) + "> modified lane " + std::to_string(i);
            }
        }
        break;
    }
    case OpInfo::CTOR_BOOL:
    {
        for (int i = 0; i < n; ++i)
            img[i] = (mix64(c.seed * 31 + i) >> 9) & 1;
        a.in[0] = img;
        a.out[0] = out;
        ok = run();
        for (int i = 0; ok && i < n; ++i)
        {
            cx.st.lane_checks++;
            if ((out[i] != 0) != (img[i] != 0))
            {
                ok = false;
                lane = i;
                why = "batch_bool element-list constructor: argument " + std::to_string(i) + " is not in lane " + std::to_string(i);
            }
        }
        break;
    }
    case OpInfo::CLOAD:
    case OpInfo::CLOAD_SPLIT:
    {
        // interleaved: memory (re,im) x n ; split: re[n] at p, im[n] at p + n*rb + 64
        unsigned char* q = p + (size_t)n * rb + 64;
        a.in[0] = p;
        a.in[1] = q;
        a.out[0] = out;
        ok = run();
        for (int i = 0; ok && i < n; ++i)
        {
            cx.st.lane_checks++;
            const unsigned char* re = oi.kind == OpInfo::CLOAD ? p + (size_t)(2 * i) * rb : p + (size_t)i * rb;
            const unsigned char* im = oi.kind == OpInfo::CLOAD ? p + (size_t)(2 * i + 1) * rb : q + (size_t)i * rb;
            if (memcmp(out + (size_t)i * rb, re, rb) || memcmp(out + (size_t)(n + i) * rb, im, rb))
            {
                ok = false;
                lane = i;
                why = "complex load: lane " + std::to_string(i) + " of (real, imag) is not memory element " + std::to_string(i);
            }
        }
        break;
    }
    case OpInfo::CSTORE:
    case OpInfo::CSTORE_SPLIT:
    {
        for (int i = 0; i < 2 * n; ++i)
        {
            uint64_t v = mix64(c.seed * 31 + i);
            memcpy(img + (size_t)i * rb, &v, rb);
        }
        unsigned char* q = p + (size_t)n * rb + 64;
        a.in[0] = img;
        a.out[0] = p;
        a.out[1] = q;
        ok = run();
        for (int i = 0; ok && i < n; ++i)
        {
            cx.st.lane_checks++;
            const unsigned char* re = oi.kind == OpInfo::CSTORE ? p + (size_t)(2 * i) * rb : p + (size_t)i * rb;
            const unsigned char* im = oi.kind == OpInfo::CSTORE ? p + (size_t)(2 * i + 1) * rb : q + (size_t)i * rb;
            if (memcmp(img + (size_t)i * rb, re, rb) || memcmp(img + (size_t)(n + i) * rb, im, rb))
            {
                ok = false;
                lane = i;
                why = "complex store: memory element " + std::to_string(i) + " is not lane " + std::to_string(i) + " of (real, imag)";
            }
        }
        if (ok)
        {
            if (oi.kind == OpInfo::CSTORE)
                ok = canary_ok(c.offset, c.offset + (size_t)2 * n * rb);
            else
                ok = canary_ok(c.offset, c.offset + (size_t)n * rb, c.offset + (size_t)n * rb + 64, c.offset + (size_t)2 * n * rb + 64);
        }
        break;
    }
    default: break;
    }
    g_armed = 0;
    cx.current_valid = false;
    cx.st.executions++;
    if (!ok)
        cx.add_violation(mkviol(c, tg, lane, exp, got, why));
    return ok;
}

static size_t footprint(const OpInfo& oi, const xsv_entry* e, TypeId t, int64_t imm)
{
    const int n = e->lanes;
    const int rb = t == C32 ? 4 : (t == C64 ? 8 : kTypeBytes[oi.reg]);
    switch (oi.kind)
    {
    case OpInfo::LOAD:
    case OpInfo::STORE: return (size_t)n * kTypeBytes[oi.mem];
    case OpInfo::BOOL_LOAD:
    case OpInfo::BOOL_STORE: return (size_t)n;
    case OpInfo::GATHER:
    case OpInfo::SCATTER: return (size_t)(imm ? imm : n * 2) * rb;
    case OpInfo::CLOAD:
    case OpInfo::CSTORE: return (size_t)2 * n * rb;
    case OpInfo::CLOAD_SPLIT:
    case OpInfo::CSTORE_SPLIT: return (size_t)2 * n * rb + 64;
    default: return 64;
    }
}

static void note_case(Context& cx, const MemCase& c, bool nontrivial)
{
    cx.st.evaluations++;
    cx.st.per_group[c.op + ":" + kTypeNames[c.type]]++;
    cx.st.cls(("placement_" + c.place).c_str());
    if (nontrivial)
    {
        uint64_t h = hash_str(c.op, c.type * 131 + c.offset * 7919 + c.seed * 31 + (uint64_t)c.payload);
        for (auto i : c.idx)
            h = mix64(h ^ (uint64_t)i);
        cx.st.note_distinct(h);
        if (cx.st.want_sample(c.op + ":" + kTypeNames[c.type], 1) && cx.st.samples.size() < 60)
            cx.st.samples.push_back("{\"op\":" + jstr(c.op) + ",\"type\":" + jstr(kTypeNames[c.type]) + ",\"placement\":" + jstr(c.place) + ",\"offset\":" + std::to_string(c.offset) + ",\"payload_class\":" + std::to_string(c.payload) + ",\"seed\":" + std::to_string(c.seed) + "}");
    }
    else
        cx.st.cls("trivial");
}

int main(int argc, char** argv)
{
    Context cx;
    cx.opt = parse_options(argc, argv);
    g_ctx() = &cx;
    install_crash_handlers();
    setup_arena();
    const std::string prop = cx.opt.prop.empty() ? "C04" : cx.opt.prop;
    g_viol_prop = prop;
    auto targets = load_targets(cx.opt, prop == "C06" ? "memas" : "mem");

    if (!cx.opt.replay.empty())
    {
        const auto& tok = cx.opt.replay; // op type target offset seed payload idx
        if (tok.size() < 7)
            return 2;
        MemCase c;
        c.op = tok[0];
        c.type = type_from_name(tok[1]);
        c.offset = (size_t)atoll(tok[3].c_str());
        c.seed = strtoull(tok[4].c_str(), 0, 10);
        c.payload = atoi(tok[5].c_str());
        c.place = "replay";
        if (tok[6] != "-")
        {
            std::string body = tok[6];
            size_t colon = body.find(':');
            if (colon != std::string::npos)
            {
                c.imm = atoll(body.substr(0, colon).c_str());
                body = body.substr(colon + 1);
            }
            std::stringstream ss(body);
            std::string it;
            while (std::getline(ss, it, ','))
                if (!it.empty())
                    c.idx.push_back(atoll(it.c_str()));
        }
        int bad = 0, ran = 0;
        for (auto& tg : targets)
        {
            if (tok[2] != "*" && tok[2] != tg.name)
                continue;
            const xsv_entry* e = tg.find(c.op, kTypeNames[c.type]);
            if (!e)
                continue;
            OpInfo oi = parse_op(c.op, c.type);
            if ((oi.kind == OpInfo::GATHER || oi.kind == OpInfo::SCATTER) && (int)c.idx.size() != e->lanes)
                continue;
            if (c.offset + footprint(oi, e, c.type, c.imm) > kRW)
                continue;
            ++ran;
            if (!exec_case(cx, c, tg, e))
                ++bad;
        }
        if (bad)
            printf("REPLAY-FAIL %s\n", cx.violations[0].to_json().c_str());
        else
            printf(ran ? "REPLAY-PASS\n" : "REPLAY-SKIP\n");
        return bad ? 1 : 0;
    }

    const long budget = std::max<long>(1, cx.opt.budget);
    // work items: every (op,type) entry of every target; split by hash over the workers
    size_t item = 0;
    for (auto& tg : targets)
    {
        for (auto& kv : tg.ops)
        {
            const xsv_entry* e = kv.second;
            const std::string op = e->op;
            if (op == "alignment")
                continue;
            if ((int)(item++ % cx.opt.nworkers) != cx.opt.worker)
                continue;
            if (!cx.opt.only_ops.empty() && !cx.opt.only_ops.count(op))
                continue;
            const TypeId t = type_from_name(e->type);
            const OpInfo oi = parse_op(op, t);
            if (oi.kind == OpInfo::NONE)
                continue;
            const bool conv = oi.mem != oi.reg;
            const bool gs = oi.kind == OpInfo::GATHER || oi.kind == OpInfo::SCATTER;
            if (gs ? prop == "C06" : (prop == "C06") != conv)
                continue; // converting loads/stores are reported under C06; gather/scatter (converting or not) under C04
            cx.st.per_target[tg.name]++;
            const int n = e->lanes;
            const uint64_t align = target_alignment(tg, t == C32 ? "f32" : (t == C64 ? "f64" : e->type));
            const size_t fp = footprint(oi, e, t, 0);
            const size_t estep = oi.kind == OpInfo::BOOL_LOAD || oi.kind == OpInfo::BOOL_STORE ? 1 : (size_t)(t == C32 ? 4 : (t == C64 ? 8 : kTypeBytes[oi.mem]));
            const uint64_t s0 = mix64(cx.opt.seed * 1000003 + hash_str(op, t) + hash_str(tg.name));
            std::vector<std::pair<size_t, const char*>> places;
            if (oi.aligned)
            {
                // every multiple of the alignment in the first 256 bytes, the last aligned position before the guard, and the start
                for (size_t o = 0; o <= 256; o += align)
                    places.push_back({ 1024 + o, "aligned_offset" });
                places.push_back({ 0, "at_lower_guard" });
                places.push_back({ ((kRW - fp) / align) * align, "aligned_at_upper_guard" });
            }
            else
            {
                for (size_t o = 0; o < 64; o += estep)
                    places.push_back({ 1024 + o, o % std::max<size_t>(1, (size_t)n * estep) ? "unaligned_offset" : "register_aligned_offset" });
                places.push_back({ 4096 - fp / 2 - (fp / 2) % estep, "across_page_boundary" });
                places.push_back({ 0, "at_lower_guard" });
                places.push_back({ kRW - fp, "at_upper_guard" });
            }
            if ((oi.kind == OpInfo::GATHER || oi.kind == OpInfo::SCATTER) && oi.mem != oi.reg)
            {
                // converting forms: every case runs inside the address-space reservation (payload class 8), the base pointer in its
                // middle, so negative indices are as legal as positive ones
                const int bits = 8 * kTypeBytes[oi.reg];
                const int64_t big = bits == 64 ? ((int64_t)1 << 32) - 9 : (((int64_t)1 << (bits - 1)) - 1);
                for (int shape = 0; shape < 8; ++shape)
                    for (long rep = 0; rep < std::max<long>(1, budget / 4); ++rep)
                    {
                        std::vector<int64_t> v(n);
                        for (int i = 0; i < n; ++i)
                        {
                            const int64_t r = (int64_t)(mix64(s0 + (uint64_t)shape * 131 + (uint64_t)rep * 7919 + (uint64_t)i) >> 20);
                            switch (shape)
                            {
                            case 0: v[i] = i; break;
                            case 1: v[i] = n - 1 - i; break;
                            case 2: v[i] = -(int64_t)(i + 1); break;
                            case 3: v[i] = (i & 1) ? -(int64_t)(3 * i + 1) : (int64_t)(2 * i); break;
                            case 4: v[i] = (r % 2000001) - 1000000 + (int64_t)i * 2000003; break; // distinct by construction
                            case 5: v[i] = big - (int64_t)i * 5; break;
                            case 6: v[i] = -big + (int64_t)i * 3; break;
                            default: v[i] = (i % 2) ? big - i : -big + i; break;
                            }
                        }
                        MemCase c;
                        c.op = op;
                        c.type = t;
                        c.idx = v;
                        c.imm = 0;
                        c.payload = 8;
                        c.seed = s0 + 900 + (uint64_t)shape * 17 + (uint64_t)rep;
                        c.offset = 0;
                        c.place = "converting_indices";
                        note_case(cx, c, true);
                        exec_case(cx, c, tg, e);
                    }
                continue;
            }
            if (oi.kind == OpInfo::GATHER || oi.kind == OpInfo::SCATTER)
            {
                const int rb = kTypeBytes[oi.reg];
                auto run_idx = [&](std::vector<int64_t> idx, size_t len, const char* cls, uint64_t s) {
                    MemCase c;
                    c.op = op;
                    c.type = t;
                    c.idx = idx;
                    c.imm = (int64_t)len;
                    c.seed = s;
                    // array ends exactly at the upper guard (an index == len would fault) or starts at the lower one
                    for (int edge = 0; edge < 2; ++edge)
                    {
                        c.offset = edge ? 0 : kRW - len * rb;
                        c.place = std::string(cls) + (edge ? "_at_lower_guard" : "_at_upper_guard");
                        note_case(cx, c, true);
                        exec_case(cx, c, tg, e);
                    }
                };
                std::vector<int64_t> v(n);
                const int64_t idx_cap = rb >= 4 ? (int64_t)1 << 20 : (oi.idx_signed ? ((int64_t)1 << (8 * rb - 1)) : ((int64_t)1 << (8 * rb)));
                const size_t len = (size_t)std::min<int64_t>((int64_t)n * 2, idx_cap);
                for (int i = 0; i < n; ++i)
                    v[i] = i;
                run_idx(v, (size_t)n, "identity", s0);
                for (int i = 0; i < n; ++i)
                    v[i] = n - 1 - i;
                run_idx(v, (size_t)n, "descending", s0 + 1);
                for (int i = 0; i < n; ++i)
                    v[i] = (2 * i + 1) % (int64_t)len;
                if (len >= (size_t)2 * n)
                    run_idx(v, len, "strided", s0 + 2);
                if (oi.kind == OpInfo::GATHER)
                {
                    for (int i = 0; i < n; ++i)
                        v[i] = (int64_t)len - 1;
                    run_idx(v, len, "all_last", s0 + 3);
                    for (int i = 0; i < n; ++i)
                        v[i] = i / 2;
                    run_idx(v, len, "repeated", s0 + 4);
                }
                {
                    // indices at the ends of the index type (negative ones for signed index types), each lane a different one
                    const int bits = 8 * rb;
                    std::vector<int64_t> ext;
                    if (oi.idx_signed)
                    {
                        const int64_t mx = bits == 64 ? ((int64_t)1 << 32) - 5 : (((int64_t)1 << (bits - 1)) - 1), mn = bits == 64 ? -((int64_t)1 << 32) + 11 : -((int64_t)1 << (bits - 1));
                        ext = { mx, mn, mx - 9, mn + 4, -1, -2, mx / 2 + 1, mn / 2 - 3 };
                        if (bits == 64)
                            for (int64_t v : { (int64_t)1 << 31, ((int64_t)1 << 31) + 7, -((int64_t)1 << 31) - 1, -((int64_t)1 << 31) })
                                ext.push_back(v);
                    }
                    else
                    {
                        const int64_t mx = bits == 64 ? ((int64_t)1 << 32) - 1 : (int64_t)((((uint64_t)1 << (bits - 1)) << 1) - 1);
                        ext = { mx, mx - 7, mx / 2 + 1, mx / 2 + 78, mx / 2, 12 };
                        if (bits == 64)
                            for (int64_t v : { (int64_t)1 << 31, ((int64_t)1 << 31) + 7 })
                                ext.push_back(v);
                    }
                    // a pool of pairwise distinct indices inside the range of the index type, the extreme ones first
                    const int64_t lo = oi.idx_signed ? (bits == 64 ? -((int64_t)1 << 32) + 8 : -((int64_t)1 << (bits - 1))) : 0;
                    const int64_t hi = oi.idx_signed ? (bits == 64 ? ((int64_t)1 << 32) - 2 : (((int64_t)1 << (bits - 1)) - 1)) : (bits == 64 ? ((int64_t)1 << 32) - 1 : (int64_t)((((uint64_t)1 << (bits - 1)) << 1) - 1));
                    std::vector<int64_t> pool;
                    for (int64_t d = 0; (int)pool.size() < 2 * n + (int)ext.size() && d < 4096; ++d)
                        for (int64_t b0 : ext)
                            for (int sg = -1; sg <= 1; sg += 2)
                            {
                                const int64_t v = b0 + sg * d * 7;
                                if (v >= lo && v <= hi && std::find(pool.begin(), pool.end(), v) == pool.end())
                                    pool.push_back(v);
                            }
                    for (int rot = 0; rot < (int)std::min<size_t>(ext.size(), (size_t)budget + 1) && (int)pool.size() >= n; ++rot)
                    {
                        std::vector<int64_t> fv(n);
                        for (int i = 0; i < n; ++i)
                            fv[i] = pool[(size_t)(i + rot * 3) % pool.size()];
                        MemCase c;
                        c.op = op;
                        c.type = t;
                        c.idx = fv;
                        c.imm = 0;
                        c.seed = s0 + 77 + (uint64_t)rot;
                        c.offset = 0;
                        c.payload = 9;
                        c.place = "extreme_indices";
                        note_case(cx, c, true);
                        exec_case(cx, c, tg, e);
                    }
                }
                rc::detail::TestParams params = rc::detail::configuration().testParams;
                params.seed = mix64(params.seed ^ s0);
                params.maxSuccess = (int)(budget * 4);
                rc::detail::TestMetadata md;
                md.id = op + ":" + e->type + ":" + tg.name;
                rc::detail::checkTestable(
                    [&]() {
                        // indices must be representable in the index element type (signed or unsigned, same width as T)
                        const int64_t idx_max = rb >= 4 ? (int64_t)1 << 20 : (oi.idx_signed ? ((int64_t)1 << (8 * rb - 1)) - 1 : ((int64_t)1 << (8 * rb)) - 1);
                        const int hi = (int)std::min<int64_t>(4 * n, idx_max + 1);
                        const size_t L = (size_t)*rc::gen::resize(100, rc::gen::inRange<int>(std::min(n, hi), hi + 1));
                        std::vector<int64_t> idx;
                        if (oi.kind == OpInfo::GATHER)
                        {
                            auto g = *rc::gen::container<std::vector<int>>((size_t)n, rc::gen::resize(100, rc::gen::inRange<int>(0, (int)L)));
                            idx.assign(g.begin(), g.end());
                        }
                        else
                        {
                            auto g = *rc::gen::unique<std::vector<int>>((size_t)n, rc::gen::resize(100, rc::gen::inRange<int>(0, (int)L)));
                            idx.assign(g.begin(), g.end());
                        }
                        MemCase c;
                        c.op = op;
                        c.type = t;
                        c.idx = idx;
                        c.imm = (int64_t)L;
                        c.seed = s0 ^ (uint64_t)idx[0];
                        c.offset = kRW - L * rb;
                        c.place = "rc_index_at_upper_guard";
                        note_case(cx, c, true);
                        RC_ASSERT(exec_case(cx, c, tg, e));
                    },
                    md, params);
                continue;
            }
            if (oi.kind == OpInfo::GET || oi.kind == OpInfo::INSERT)
            {
                for (int rep = 0; rep < (oi.kind == OpInfo::INSERT ? 4 : 1); ++rep)
                    for (int i = 0; i < n; ++i)
                    {
                        MemCase c;
                        c.op = op;
                        c.type = t;
                        c.imm = i;
                        c.payload = rep;
                        c.seed = s0 + i + (uint64_t)rep * 1000003u;
                        c.place = "every_index";
                        note_case(cx, c, true);
                        exec_case(cx, c, tg, e);
                    }
                continue;
            }
            if (oi.kind == OpInfo::BROADCAST || oi.kind == OpInfo::CTOR || oi.kind == OpInfo::CTOR_BOOL)
            {
                for (long r = 0; r < budget * 4; ++r)
                {
                    MemCase c;
                    c.op = op;
                    c.type = t;
                    c.seed = s0 + r;
                    c.place = "register_only";
                    note_case(cx, c, true);
                    exec_case(cx, c, tg, e);
                }
                continue;
            }
            for (auto& pl : places)
                for (int payload = 0; payload < 3; ++payload)
                    for (long r = 0; r < std::max<long>(1, budget / 4); ++r)
                    {
                        MemCase c;
                        c.op = op;
                        c.type = t;
                        c.offset = pl.first;
                        c.place = pl.second;
                        c.payload = payload;
                        c.seed = s0 + (uint64_t)r * 3 + payload;
                        if (c.offset + fp > kRW)
                            continue;
                        const bool nt = c.place != "register_aligned_offset" || payload == 0;
                        note_case(cx, c, nt);
                        exec_case(cx, c, tg, e);
                    }
        }
        cx.write_out();
    }
    cx.write_out();
    return cx.violations.empty() ? 0 : 1;
}
