// C11, C12, C13 (math part), C14 modes and the per-property replay of the elementary-function driver.
// (included by d_math.cpp)

static void run_c11(Context& cx);
static void run_c12(Context& cx);
static void run_c13(Context& cx);
static void run_c14(Context& cx);

template <class T>
static bool replay_case_prop(Context& cx, const Fn* f, const std::string& op, const Target& tg, const xsv_entry* e, const T* xs, const T* ys, mfn::Arbiter& arb);

#include "d_math_c11.hpp"
#include "d_math_c12.hpp"
#include "d_math_c13.hpp"
#include "d_math_c14.hpp"
#include "d_math_c17.hpp"

template <class T>
static bool replay_case_prop(Context& cx, const Fn* f, const std::string& op, const Target& tg, const xsv_entry* e, const T* xs, const T* ys, mfn::Arbiter& arb)
{
    const std::string p = cx.opt.prop;
    if (p == "C12")
        return c12_replay<T>(cx, op, tg, e, xs, ys);
    if (p == "C13")
        return c13_replay<T>(cx, op, tg, e, xs, ys, arb);
    if (p == "C14")
        return c14_replay<T>(cx, op, tg, e, xs, ys);
    if (p == "C17")
        return c17_replay<T>(cx, op, tg, e, xs, ys);
    if (!f)
        return true;
    FnT ft;
    ft.f = f;
    ft.tg.push_back(&tg);
    ft.e.push_back(e);
    ld refs[64];
    for (int l = 0; l < e->lanes; ++l)
        refs[l] = sizeof(T) == 4 ? (ld)f->r32((double)xs[l], (double)ys[l]) : f->r64((ld)xs[l], (ld)ys[l]);
    return judge_batch<T>(cx, ft, 0, xs, ys, refs, nullptr, arb, "replay");
}
