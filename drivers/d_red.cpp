// C09: reductions combine exactly the lanes of the batch, every lane once.
// Cases are register images with a *witness* (strict extreme / distinguished addend) placed at an
// enumerated lane position; oracles are exact folds (integers), exact sums when every partial sum is
// representable, and the (n-1)-roundings error bound otherwise (floats).
#include <rapidcheck.h>

#include "fp_model.hpp"
#include "int_model.hpp"
#include "xsv.hpp"

using namespace xsv;

static Context* CX;

struct RCase
{
    std::string op;
    TypeId type;
    alignas(64) unsigned char img[64 * 64]; // up to 64 rows of 64 bytes for haddp; row 0 for plain reductions
    std::string cls; // generation class
    int witness_lane = -1;
};

template <class T>
static std::string vstr(T v)
{
    return lane_str(type_id<T>::value, &v);
}

static Violation mkviol(const RCase& c, const Target& tg, const xsv_entry* e, int lane, const std::string& exp, const std::string& got, const std::string& why)
{
    Violation v;
    v.kind = "red";
    v.prop = "C09";
    v.op = c.op;
    v.type = kTypeNames[c.type];
    v.target = tg.name;
    v.lane = lane;
    const size_t rb = (size_t)e->lanes * e->elem_bytes;
    if (c.op == "haddp")
        v.in_hex.push_back(hex(c.img, rb * e->lanes));
    else
        v.in_hex.push_back(hex(c.img, rb));
    v.expected = exp;
    v.got = got;
    v.why = why + " [class " + c.cls + ", witness lane " + std::to_string(c.witness_lane) + "]";
    return v;
}

// exact sum of n values of T as long double / __float128 and sum of magnitudes
template <class T>
static void exact_sum(const T* x, int n, __float128& s, __float128& sabs)
{
    s = 0;
    sabs = 0;
    for (int i = 0; i < n; ++i)
    {
        s += (__float128)x[i];
        sabs += (__float128)(x[i] < 0 ? -x[i] : x[i]);
    }
}

// is every possible partial sum exactly representable?  sufficient condition: all lanes are integers
// multiples of a common quantum q=2^k with sum of magnitudes / q < 2^digits
template <class T>
static bool exactly_summable(const T* x, int n)
{
    int minexp = 100000;
    __float128 sabs = 0;
    for (int i = 0; i < n; ++i)
    {
        if (x[i] == 0)
            continue;
        int e;
        T m = std::frexp(x[i], &e);
        // lowest set bit position of the significand
        int low = e - std::numeric_limits<T>::digits;
        typename model::fpt<T>::U mb = (typename model::fpt<T>::U)std::ldexp(std::fabs(m), std::numeric_limits<T>::digits);
        while (mb && !(mb & 1))
        {
            mb >>= 1;
            ++low;
        }
        minexp = std::min(minexp, low);
        sabs += (__float128)std::fabs(x[i]);
    }
    if (minexp == 100000)
        return true;
    __float128 q = 1;
    // sabs / 2^minexp < 2^digits
    long double lim = std::ldexp(1.0L, minexp + std::numeric_limits<T>::digits);
    return (long double)sabs < lim && minexp >= std::numeric_limits<T>::min_exponent - std::numeric_limits<T>::digits;
}

template <class T>
static bool judge_fp_sum(const T* x, int n, T got, std::string& why, std::string& exp, bool& exactcls)
{
    __float128 s, sabs;
    exact_sum(x, n, s, sabs);
    exactcls = exactly_summable(x, n);
    if (exactcls)
    {
        T e = (T)s;
        exp = vstr(e);
        if (!(got == e))
        {
            why = "every partial sum is exactly representable, so the sum must be exact whatever the association order";
            return false;
        }
        return true;
    }
    const __float128 u = (__float128)std::numeric_limits<T>::epsilon() / 2;
    __float128 bound = (__float128)(n - 1) * u * sabs * (1 + (__float128)n * u);
    // allow one denormal quantum for results that underflow
    bound += (__float128)std::numeric_limits<T>::denorm_min();
    __float128 d = (__float128)got - s;
    if (d < 0)
        d = -d;
    exp = vstr((T)s) + " +- " + std::to_string((double)bound);
    if (!(d <= bound))
    {
        why = "sum differs from the exact sum by more than (n-1) roundings";
        return false;
    }
    return true;
}

template <class T>
static bool check_reduce(Context& cx, const RCase& c, const Target& tg, const xsv_entry* e, const unsigned char* out)
{
    const int n = e->lanes;
    T x[64];
    memcpy(x, c.img, (size_t)n * sizeof(T));
    T got;
    memcpy(&got, out, sizeof(T));
    std::string why, exp;
    bool ok = true;
    const std::string& op = c.op;
    if constexpr (std::is_integral<T>::value)
    {
        T e2 = 0;
        if (op == "reduce_add" || op == "reduce_fadd")
        {
            model::i128 s = 0;
            for (int i = 0; i < n; ++i)
                s += x[i];
            e2 = model::wrap<T>(s);
        }
        else if (op == "reduce_max" || op == "reduce_fmax")
        {
            e2 = x[0];
            for (int i = 1; i < n; ++i)
                e2 = std::max(e2, x[i]);
        }
        else if (op == "reduce_min" || op == "reduce_fmin")
        {
            e2 = x[0];
            for (int i = 1; i < n; ++i)
                e2 = std::min(e2, x[i]);
        }
        else if (op == "reduce_fand")
        {
            e2 = x[0];
            for (int i = 1; i < n; ++i)
                e2 = (T)(e2 & x[i]);
        }
        else if (op == "reduce_for")
        {
            e2 = x[0];
            for (int i = 1; i < n; ++i)
                e2 = (T)(e2 | x[i]);
        }
        else if (op == "reduce_fxor")
        {
            e2 = x[0];
            for (int i = 1; i < n; ++i)
                e2 = (T)(e2 ^ x[i]);
        }
        ok = got == e2;
        exp = vstr(e2);
        if (!ok)
            why = "fold over all lanes differs";
    }
    else
    {
        if (op == "reduce_add" || op == "reduce_fadd")
        {
            bool ex;
            ok = judge_fp_sum<T>(x, n, got, why, exp, ex);
            cx.st.cls(ex ? "fp_sum_exact_class" : "fp_sum_bounded_class");
        }
        else
        {
            const bool mx = op == "reduce_max" || op == "reduce_fmax";
            T e2 = x[0];
            for (int i = 1; i < n; ++i)
                e2 = mx ? std::max(e2, x[i]) : std::min(e2, x[i]);
            exp = vstr(e2);
            bool some = false;
            for (int i = 0; i < n; ++i)
                some = some || x[i] == got;
            ok = got == e2 && some;
            if (!ok)
                why = "result is not the extreme lane";
        }
    }
    cx.st.lane_checks++;
    if (!ok)
        cx.add_violation(mkviol(c, tg, e, c.witness_lane, exp, vstr(got), why));
    return ok;
}

template <class T>
static bool check_haddp(Context& cx, const RCase& c, const Target& tg, const xsv_entry* e, const unsigned char* out)
{
    const int n = e->lanes;
    bool all = true;
    for (int r = 0; r < n; ++r)
    {
        T x[64];
        memcpy(x, c.img + (size_t)r * n * sizeof(T), (size_t)n * sizeof(T));
        T got;
        memcpy(&got, out + (size_t)r * sizeof(T), sizeof(T));
        std::string why, exp;
        bool ex;
        bool ok = judge_fp_sum<T>(x, n, got, why, exp, ex);
        cx.st.lane_checks++;
        if (!ok)
        {
            cx.add_violation(mkviol(c, tg, e, r, exp, vstr(got), "haddp lane " + std::to_string(r) + " is not the sum of row " + std::to_string(r) + ": " + why));
            all = false;
            break;
        }
    }
    return all;
}

static bool exec_case(Context& cx, const RCase& c, const Target& tg, const xsv_entry* e)
{
    alignas(64) unsigned char out[128];
    memset(out, 0xCD, sizeof out);
    xsv_args a;
    memset(&a, 0, sizeof a);
    a.in[0] = c.img;
    a.out[0] = out;
    cx.current_valid = true;
    cx.current = mkviol(c, tg, e, -1, "", "", "");
    e->fn(&a);
    cx.current_valid = false;
    cx.st.executions++;
    if (!fpenv_ok())
    {
        cx.add_violation(mkviol(c, tg, e, -1, "", "", "rounding mode or FTZ/DAZ changed by the call"));
        return false;
    }
    const bool h = c.op == "haddp";
    switch (c.type)
    {
    case I8: return check_reduce<int8_t>(cx, c, tg, e, out);
    case U8: return check_reduce<uint8_t>(cx, c, tg, e, out);
    case I16: return check_reduce<int16_t>(cx, c, tg, e, out);
    case U16: return check_reduce<uint16_t>(cx, c, tg, e, out);
    case I32: return check_reduce<int32_t>(cx, c, tg, e, out);
    case U32: return check_reduce<uint32_t>(cx, c, tg, e, out);
    case I64: return check_reduce<int64_t>(cx, c, tg, e, out);
    case U64: return check_reduce<uint64_t>(cx, c, tg, e, out);
    case F32: return h ? check_haddp<float>(cx, c, tg, e, out) : check_reduce<float>(cx, c, tg, e, out);
    case F64: return h ? check_haddp<double>(cx, c, tg, e, out) : check_reduce<double>(cx, c, tg, e, out);
    default: return true;
    }
}

// ---------------------------------------------------------------- case construction for a target with n lanes
// fill kinds: 0 "all smaller/ordinary random", 1 "all equal", 2 "uniform random bits (ints) / mixed magnitudes (floats)", 3 "powers of two (membership)"
template <class T>
static void build_lanes(T* x, int n, int p, int kind, const std::string& op, uint64_t seed)
{
    using L = std::numeric_limits<T>;
    const bool isadd = op.find("add") != std::string::npos || op == "haddp";
    const bool ismax = op.find("max") != std::string::npos;
    const bool ismin = op.find("min") != std::string::npos;
    auto rnd = [&](int i) { return mix64(seed * 0x100 + (uint64_t)i); };
    if constexpr (std::is_integral<T>::value)
    {
        for (int i = 0; i < n; ++i)
        {
            uint64_t r = rnd(i);
            if (kind == 1)
                x[i] = (T)(rnd(1000) >> 3);
            else if (kind == 0)
                x[i] = (T)(r % 100);
            else
                x[i] = (T)r;
        }
        if (ismax || ismin)
        {
            // strict witness: every other lane is pushed strictly below (above) it
            T w = ismax ? (kind == 2 ? (T)(L::max() - (T)(rnd(999) % 3)) : (T)120) : (kind == 2 ? (T)(L::min() + (T)(rnd(998) % 3)) : (std::is_signed<T>::value ? (T)-120 : (T)1));
            // witness on the "wrong" side of zero / at the far end of the range: a fold seeded with 0, with the wrong
            // numeric_limits member or with a neighbouring constant returns something that is not a lane
            const unsigned wsel = (unsigned)(rnd(997) % 4);
            if (kind != 1 && wsel == 1)
                w = ismax ? (std::is_signed<T>::value ? (T)(-3 - (int)(rnd(996) % 5)) : (T)(1 + rnd(996) % 5)) : (T)(3 + rnd(996) % 5);
            else if (kind != 1 && wsel == 2)
                w = ismax ? (T)(L::min() + (T)(1 + rnd(995) % 3)) : (T)(L::max() - (T)(1 + rnd(995) % 3));
            for (int i = 0; i < n; ++i)
            {
                if (ismax && x[i] >= w)
                {
                    const uint64_t room = (uint64_t)((model::i128)w - (model::i128)L::min()); // values strictly below w
                    x[i] = (T)(w - 1 - (T)(rnd(i + 64) % std::min<uint64_t>(room, 100)));
                }
                if (ismin && x[i] <= w)
                {
                    const uint64_t room = (uint64_t)((model::i128)L::max() - (model::i128)w);
                    x[i] = (T)(w + 1 + (T)(rnd(i + 64) % std::min<uint64_t>(room, 100)));
                }
            }
            x[p] = w;
        }
        else if (isadd)
        {
            if (x[p] == 0)
                x[p] = 1;
            if (kind == 3)
                for (int i = 0; i < n; ++i)
                    x[i] = (T)((typename std::make_unsigned<T>::type)1 << (i % (sizeof(T) * 8)));
        }
        else
        {
            // and / or / xor: witness lane owns a private bit pattern
            if (op == "reduce_fand")
            {
                for (int i = 0; i < n; ++i)
                    x[i] = (T)(x[i] | (T)(1u << (p % (sizeof(T) * 8))));
                x[p] = (T)(x[p] & (T) ~(T)(1u << (p % (sizeof(T) * 8))));
            }
            else
            {
                for (int i = 0; i < n; ++i)
                    x[i] = (T)(x[i] & (T) ~(T)(1u << (p % (sizeof(T) * 8))));
                x[p] = (T)(x[p] | (T)(1u << (p % (sizeof(T) * 8))));
            }
        }
    }
    else
    {
        for (int i = 0; i < n; ++i)
        {
            uint64_t r = rnd(i);
            if (kind == 1)
                x[i] = (T)(int)(rnd(1000) % 1000) - 500;
            else if (kind == 0)
                x[i] = (T)((int)(r % 2049) - 1024); // small integers: every partial sum exact
            else if (kind == 3)
                x[i] = std::ldexp((T)1, (int)(i % (L::digits - 2))) * (T)((r >> 40) & 1 ? -1 : 1); // distinct powers of two within one significand
            else
            {
                // mixed magnitudes, finite, far from overflow
                int ex = (int)(r % 61) - 30;
                T m = (T)((double)((r >> 8) & 0xFFFFFF) / 16777216.0 + 0.5);
                x[i] = std::ldexp(m, ex) * (T)((r >> 50) & 1 ? -1 : 1);
            }
        }
        if (ismax || ismin)
        {
            T w = ismax ? (T)1e30 : (T)-1e30;
            if (kind == 1)
                w = ismax ? (T)501 : (T)-501;
            else
            {
                // the maximum may be negative, zero, subnormal or the largest finite value (minimum: mirrored); every other
                // lane lies strictly on the far side of it
                static const double wl[] = { 1e30, 1.5, -1.0, -1e-30, -1e30, 0.0, 1e30, 501.0 };
                const unsigned wsel = (unsigned)(rnd(997) % 12);
                T m;
                if (wsel < 8)
                    m = (T)wl[wsel];
                else if (wsel == 8)
                    m = L::min(); // smallest normal
                else if (wsel == 9)
                    m = L::denorm_min() * (T)3;
                else if (wsel == 10)
                    m = -L::denorm_min() * (T)2;
                else
                    m = L::max();
                w = ismax ? m : -m;
            }
            auto beyond = [&](uint64_t r) -> T {
                // a value strictly below w (max) / strictly above w (min)
                const T sgn = ismax ? (T)-1 : (T)1;
                T v;
                if (w == 0 || std::fpclassify(w) == FP_SUBNORMAL)
                    v = (r & 8) ? w + sgn * (T)(1 + r % 7) * L::denorm_min() : sgn * (T)(1 + (r >> 4) % 1000);
                else
                {
                    v = w + sgn * std::fabs(w) * (T)(0.25 + (double)(r % 1000) / 1000.0);
                    if (std::isinf(v))
                        v = ismax ? L::lowest() : L::max();
                }
                return v;
            };
            for (int i = 0; i < n; ++i)
            {
                if (ismax && x[i] >= w)
                    x[i] = kind == 1 ? w / 2 : beyond(rnd(i + 64));
                if (ismin && x[i] <= w)
                    x[i] = kind == 1 ? w / 2 : beyond(rnd(i + 64));
            }
            x[p] = w;
        }
        else if (kind == 3 && n > L::digits - 2)
        {
            // more lanes than binades in one significand: repeat exponents but keep the witness unique
            for (int i = 0; i < n; ++i)
                x[i] = std::ldexp((T)1, (int)((i * 7) % (L::digits - 6))) * (T)(((rnd(i) >> 40) & 1) ? -1 : 1);
            x[p] = std::ldexp((T)1, L::digits - 4);
        }
        else if (kind != 3 && x[p] == 0)
            x[p] = 1;
    }
}

template <class T>
static void fill_case(RCase& c, const xsv_entry* e, int p, int kind, uint64_t seed)
{
    const int n = e->lanes;
    if (c.op == "haddp")
    {
        // every row distinct; row r has its own witness position
        for (int r = 0; r < n; ++r)
        {
            T x[64];
            build_lanes<T>(x, n, (p + r * 3) % n, kind == 1 ? 0 : kind, "reduce_add", seed * 131 + (uint64_t)r);
            if constexpr (std::is_floating_point<T>::value)
                x[(p + r) % n] += (T)(r + 1) * (kind == 3 ? 0 : 1); // make row sums pairwise different
            memcpy(c.img + (size_t)r * n * sizeof(T), x, (size_t)n * sizeof(T));
        }
    }
    else
    {
        T x[64];
        build_lanes<T>(x, n, p, kind, c.op, seed);
        memcpy(c.img, x, (size_t)n * sizeof(T));
    }
    static const char* kn[] = { "small", "all_equal", "wide", "powers_of_two" };
    c.cls = kn[kind];
    c.witness_lane = p;
}

static void fill_case_t(RCase& c, const xsv_entry* e, int p, int kind, uint64_t seed)
{
    switch (c.type)
    {
    case I8: fill_case<int8_t>(c, e, p, kind, seed); break;
    case U8: fill_case<uint8_t>(c, e, p, kind, seed); break;
    case I16: fill_case<int16_t>(c, e, p, kind, seed); break;
    case U16: fill_case<uint16_t>(c, e, p, kind, seed); break;
    case I32: fill_case<int32_t>(c, e, p, kind, seed); break;
    case U32: fill_case<uint32_t>(c, e, p, kind, seed); break;
    case I64: fill_case<int64_t>(c, e, p, kind, seed); break;
    case U64: fill_case<uint64_t>(c, e, p, kind, seed); break;
    case F32: fill_case<float>(c, e, p, kind, seed); break;
    case F64: fill_case<double>(c, e, p, kind, seed); break;
    default: break;
    }
}

static void note_case(Context& cx, const RCase& c, const xsv_entry* e)
{
    cx.st.evaluations++;
    const size_t rb = (size_t)e->lanes * e->elem_bytes * (c.op == "haddp" ? e->lanes : 1);
    uint64_t h = hash_bytes(c.img, rb, hash_str(c.op, c.type));
    // non-trivial: witness strict by construction and lanes not all equal
    bool alleq = true;
    for (int i = 1; i < e->lanes; ++i)
        if (memcmp(c.img, c.img + (size_t)i * e->elem_bytes, e->elem_bytes))
            alleq = false;
    if (!alleq)
        cx.st.note_distinct(h);
    else
        cx.st.cls("trivial");
    cx.st.cls(("class_" + c.cls).c_str());
    cx.st.classes["witness_lane_" + std::to_string(c.witness_lane)]++;
    std::string g = c.op + ":" + kTypeNames[c.type];
    cx.st.per_group[g]++;
    if (!alleq && cx.st.want_sample(g, 1))
    {
        std::string s = "{\"op\":" + jstr(c.op) + ",\"type\":" + jstr(kTypeNames[c.type]) + ",\"class\":" + jstr(c.cls) + ",\"witness_lane\":" + std::to_string(c.witness_lane) + ",\"lanes\":[";
        for (int i = 0; i < std::min<int>(e->lanes, 8); ++i)
            s += (i ? "," : "") + jstr(lane_str(c.type, c.img + (size_t)i * e->elem_bytes));
        s += "]}";
        cx.st.samples.push_back(s);
    }
}

int main(int argc, char** argv)
{
    Context cx;
    CX = &cx;
    cx.opt = parse_options(argc, argv);
    g_ctx() = &cx;
    install_crash_handlers();
    cx.termination_only = cx.opt.prop == "C14" && cx.opt.replay.empty(); // C14 stage: execute everything, report only calls that do not return
    auto targets = load_targets(cx.opt, "red");

    if (!cx.opt.replay.empty())
    {
        const auto& tok = cx.opt.replay; // op type target imm inhex
        if (tok.size() < 5)
            return 2;
        RCase c;
        c.op = tok[0];
        c.type = type_from_name(tok[1]);
        c.cls = "replay";
        auto b = unhex(tok[4]);
        memset(c.img, 0, sizeof c.img);
        memcpy(c.img, b.data(), std::min(b.size(), sizeof c.img));
        int bad = 0, ran = 0;
        for (auto& tg : targets)
        {
            if (tok[2] != "*" && tok[2] != tg.name)
                continue;
            const xsv_entry* e = tg.find(c.op, kTypeNames[c.type]);
            if (!e)
                continue;
            if (tok[2] == "*" && b.size() < (size_t)e->lanes * e->elem_bytes)
                continue;
            ++ran;
            if (!exec_case(cx, c, tg, e))
                ++bad;
        }
        if (bad)
            printf("REPLAY-FAIL %s\n", cx.violations[0].to_json().c_str());
        else
            printf(ran ? "REPLAY-PASS\n" : "REPLAY-SKIP\n");
        return bad ? 1 : 0;
    }

    static const char* ops[] = { "reduce_add", "reduce_max", "reduce_min", "reduce_fadd", "reduce_fmax", "reduce_fmin", "reduce_fand", "reduce_for", "reduce_fxor", "haddp" };
    // work items: (op, type); every target
    struct Item
    {
        std::string op;
        TypeId t;
    };
    std::vector<Item> items;
    for (const char* op : ops)
        for (int t = 0; t <= F64; ++t)
            items.push_back({ op, (TypeId)t });
    const long reps = std::max<long>(1, cx.opt.budget); // fills per (lane position, class)
    for (size_t ii = 0; ii < items.size(); ++ii)
    {
        if ((int)(ii % cx.opt.nworkers) != cx.opt.worker)
            continue;
        const Item& it = items[ii];
        if (!cx.opt.only_ops.empty() && !cx.opt.only_ops.count(it.op))
            continue;
        for (auto& tg : targets)
        {
            const xsv_entry* e = tg.find(it.op, kTypeNames[it.t]);
            if (!e)
                continue;
            cx.st.per_target[tg.name]++;
            const int n = e->lanes;
            // (a) enumerated witness placement x class x deterministic fills
            for (int p = 0; p < n; ++p)
                for (int kind = 0; kind < 4; ++kind)
                    for (long rep = 0; rep < reps; ++rep)
                    {
                        RCase c;
                        c.op = it.op;
                        c.type = it.t;
                        fill_case_t(c, e, p, kind, mix64(cx.opt.seed * 1000003 + (uint64_t)rep * 4 + kind) ^ hash_str(it.op, it.t) ^ (uint64_t)p << 20);
                        note_case(cx, c, e);
                        exec_case(cx, c, tg, e);
                    }
            // (b) rapidcheck: position, class and fill seed are library-generated (shrinks towards lane 0 / class small / seed 0)
            rc::detail::TestParams params = rc::detail::configuration().testParams;
            params.seed = mix64(params.seed ^ hash_str(it.op, it.t) ^ hash_str(tg.name));
            params.maxSuccess = (int)(reps * 20);
            rc::detail::TestMetadata md;
            md.id = it.op + ":" + kTypeNames[it.t] + ":" + tg.name;
            md.description = md.id;
            rc::detail::checkTestable(
                [&]() {
                    const int p = *rc::gen::resize(100, rc::gen::inRange<int>(0, n));
                    const int kind = *rc::gen::resize(100, rc::gen::inRange<int>(0, 4));
                    const uint64_t s = *rc::gen::resize(100, rc::gen::arbitrary<uint64_t>());
                    RCase c;
                    c.op = it.op;
                    c.type = it.t;
                    fill_case_t(c, e, p, kind, s);
                    note_case(cx, c, e);
                    RC_ASSERT(exec_case(cx, c, tg, e) || cx.termination_only);
                },
                md, params);
        }
        cx.write_out();
    }
    cx.write_out();
    return cx.violations.empty() ? 0 : 1;
}
