// C17 (elementary functions): the scalar overload and the batch version agree within the accuracy bound.
template <class T>
static void c17_type(Context& cx)
{
    static const char* fns[] = { "exp", "log", "sin", "cos", "tan", "atan", "tanh", "cbrt", "erf", "exp2", "exp10", "log2", "tgamma", "lgamma" };
    size_t item = 0;
    uint64_t nontriv = 0;
    mfn::Arbiter arb(sizeof(T) == 4 ? 160 : 256);
    for (const char* name : fns)
    {
        const Fn* f = mfn::find(name);
        if (!f || (!cx.opt.only_ops.empty() && !cx.opt.only_ops.count(name)))
            continue;
        for (auto& tg : g_targets)
        {
            const xsv_entry* eb = tg.find(name, prec<T>::tn);
            const xsv_entry* es = tg.find(std::string("s_") + name, prec<T>::tn);
            if (!eb || !es)
                continue;
            if ((int)(item++ % (size_t)cx.opt.nworkers) != cx.opt.worker)
                continue;
            cx.st.per_target[tg.name]++;
            const int n = eb->lanes;
            auto run = [&](const T* xs) -> bool {
                T ob[64], os1[64], one[64];
                CallResult cb = call<T>(cx, tg, eb, xs, nullptr, ob);
                if (cb.overflowed)
                    return true;
                bool ok = true;
                for (int l = 0; l < n; ++l)
                {
                    if (!arg_claimed(xs[l]))
                        continue;
                    for (int i = 0; i < n; ++i)
                        one[i] = xs[l];
                    CallResult cs = call<T>(cx, tg, es, one, nullptr, os1);
                    if (cs.overflowed)
                        continue;
                    const T s = os1[0], b = ob[l];
                    cx.st.lane_checks++;
                    ld ref = sizeof(T) == 4 ? (ld)f->r32((double)xs[l], 0) : f->r64((ld)xs[l], 0);
                    if (std::isnan((double)ref))
                        continue;
                    std::string why;
                    const ld lo = 4 * (ld)std::numeric_limits<T>::min(), hi = (ld)std::numeric_limits<T>::max() / 4;
                    if (std::isfinite((double)ref) && fabsl(ref) >= lo && fabsl(ref) <= hi)
                    {
                        // unit: ulp of the largest of the three values (two results straddling a binade boundary are not penalised)
                        ld big = std::max(fabsl(mfn::metric_value(*f, ref)), std::max(fabsl((ld)s), fabsl((ld)b)));
                        ld u = mfn::ulp_of(std::isfinite((double)big) ? big : ref, prec<T>::p);
                        // each result is within one bound of the exact value, so they are within two bounds of each other
                        double bound = 2 * mfn::bound_at<T>(*f, xs[l], 0, ref);
                        double d = (std::isfinite(s) && std::isfinite(b)) ? (double)(fabsl((ld)s - (ld)b) / u) : HUGE_VAL;
                        double es_ = std::isfinite(s) ? (double)(fabsl((ld)s - ref) / u) : HUGE_VAL;
                        if (d > bound + 1 && !math_known<T>(cx.opt, *f, xs[l], 0, b, ref, d))
                        {
                            char buf[200];
                            snprintf(buf, sizeof buf, "scalar overload and batch lane differ by %.2f ulp, more than twice the accuracy bound (%.2f) + 1 (scalar is %.2f ulp from the reference)", d, bound, es_);
                            why = buf;
                        }
                    }
                    else if (std::isnan(s) != std::isnan(b))
                        why = "scalar overload and batch lane disagree on NaN outside the claimed range";
                    if (!why.empty())
                    {
                        ok = false;
                        std::string key = std::string("s_") + name + ":" + prec<T>::tn + ":" + tg.name;
                        if (!cx.has_violation(key))
                        {
                            Violation v = math_viol<T>(cx, std::string("s_") + name, tg, n, xs, nullptr, l, lane_str(prec<T>::tid, &s), lane_str(prec<T>::tid, &b), why);
                            cx.add_violation(v);
                        }
                    }
                }
                return ok;
            };
            T xs[64];
            if (sizeof(T) == 4)
            {
                const uint64_t stride = cx.opt.thorough() ? 257 : 16381;
                const uint64_t phase = mix64(cx.opt.seed ^ hash_str(name)) % stride;
                for (uint64_t u = phase; u < (1ull << 32); u += stride * n)
                {
                    for (int l = 0; l < n; ++l)
                    {
                        uint32_t w = (uint32_t)(u + (uint64_t)l * stride);
                        memcpy(&xs[l], &w, 4);
                    }
                    cx.st.evaluations++;
                    ++nontriv;
                    run(xs);
                }
            }
            else
            {
                rc::detail::TestParams params = rc::detail::configuration().testParams;
                params.seed = mix64(params.seed ^ hash_str(name, 17) ^ hash_str(tg.name));
                params.maxSuccess = (int)std::max<long>(1, cx.opt.budget);
                rc::detail::TestMetadata md;
                md.id = std::string("c17:") + name + ":" + tg.name;
                rc::detail::checkTestable(
                    [&]() {
                        const int cls = *rc::gen::resize(100, rc::gen::inRange<int>(0, 6));
                        auto v = *rc::gen::container<std::vector<double>>((size_t)n, rc::gen::resize(100, c11_arg(*f, cls)));
                        for (int l = 0; l < n; ++l)
                            xs[l] = (T)v[l];
                        cx.st.evaluations++;
                        cx.st.note_distinct(hash_bytes(xs, sizeof(T) * n, hash_str(name)));
                        RC_ASSERT(run(xs));
                    },
                    md, params);
            }
        }
        cx.write_out();
    }
    cx.st.distinct_extra += nontriv;
    cx.st.nontrivial_cases += nontriv;
}
static void run_c17(Context& cx)
{
    c17_type<float>(cx);
    c17_type<double>(cx);
}
template <class T>
static bool c17_replay(Context& cx, const std::string& op, const Target& tg, const xsv_entry* e, const T* xs, const T*)
{
    // op is "s_<fn>": compare with the batch entry on the recorded arguments
    const std::string fn = op.substr(2);
    const Fn* f = mfn::find(fn);
    const xsv_entry* eb = tg.find(fn, prec<T>::tn);
    if (!f || !eb)
        return true;
    const int n = eb->lanes;
    T ob[64], os1[64], one[64];
    call<T>(cx, tg, eb, xs, nullptr, ob);
    bool ok = true;
    for (int l = 0; l < n; ++l)
    {
        if (!arg_claimed(xs[l]))
            continue;
        for (int i = 0; i < n; ++i)
            one[i] = xs[l];
        call<T>(cx, tg, e, one, nullptr, os1);
        ld ref = sizeof(T) == 4 ? (ld)f->r32((double)xs[l], 0) : f->r64((ld)xs[l], 0);
        const ld lo = 4 * (ld)std::numeric_limits<T>::min(), hi = (ld)std::numeric_limits<T>::max() / 4;
        if (!(std::isfinite((double)ref) && fabsl(ref) >= lo && fabsl(ref) <= hi))
            continue;
        ld big = std::max(fabsl(mfn::metric_value(*f, ref)), std::max(fabsl((ld)os1[0]), fabsl((ld)ob[l])));
        ld u = mfn::ulp_of(std::isfinite((double)big) ? big : ref, prec<T>::p);
        double d = (std::isfinite(os1[0]) && std::isfinite(ob[l])) ? (double)(fabsl((ld)os1[0] - (ld)ob[l]) / u) : HUGE_VAL;
        if (d > 2 * mfn::bound_at<T>(*f, xs[l], 0, ref) + 1 && !math_known<T>(cx.opt, *f, xs[l], 0, ob[l], ref, d))
        {
            ok = false;
            cx.add_violation(math_viol<T>(cx, op, tg, n, xs, nullptr, l, "", "", "scalar overload and batch lane differ by more than the accuracy bound"));
        }
    }
    return ok;
}
