// Elementary-function driver: C10 (float32 accuracy), C11 (double accuracy), C12 (special values, symmetries),
// C13 (lane independence, math part), C14 (bounded termination).  Mode = --prop.
#include <rapidcheck.h>

#include "math_common.hpp"

using namespace xsv;

static std::vector<Target> g_targets;

struct FnT
{
    const Fn* f;
    std::vector<const Target*> tg;
    std::vector<const xsv_entry*> e;
};
template <class T>
static FnT resolve_fn(const Fn& f, const Options& o)
{
    FnT r;
    r.f = &f;
    for (auto& t : g_targets)
    {
        const xsv_entry* e = t.find(f.name, prec<T>::tn);
        if (e)
        {
            r.tg.push_back(&t);
            r.e.push_back(e);
        }
    }
    (void)o;
    return r;
}

static double g_maxerr[64][2];
static uint64_t g_outside_range = 0;
template <class T>
static inline void note_err(Context& cx, const Fn& f, const Target& tg, double err, T x, T y)
{
    const size_t fi = (size_t)(&f - &mfn::table()[0]);
    const int ti = sizeof(T) == 4 ? 0 : 1;
    if (err <= g_maxerr[fi][ti])
        return;
    g_maxerr[fi][ti] = err;
    char b[160];
    if (f.arity == 2)
        snprintf(b, sizeof b, "x=%.17g y=%.17g on %s", (double)x, (double)y, tg.name.c_str());
    else
        snprintf(b, sizeof b, "x=%.17g on %s", (double)x, tg.name.c_str());
    cx.st.maxv(std::string(f.name) + ":" + prec<T>::tn, err, b);
}

// judge a full batch (neighbour layout or any layout): xs/ys inputs, refs per lane
template <class T>
static bool judge_batch(Context& cx, const FnT& ft, size_t ti, const T* xs, const T* ys, const ld* refs, const bool* check, mfn::Arbiter& arb, const char* layout, const Pre* pre = nullptr)
{
    const Fn& f = *ft.f;
    const Target& tg = *ft.tg[ti];
    const xsv_entry* e = ft.e[ti];
    const int n = e->lanes;
    T out[64];
    CallResult cr = call<T>(cx, tg, e, xs, f.arity == 2 ? ys : nullptr, out);
    if (cr.overflowed)
    {
        cx.add_violation(math_viol<T>(cx, f.name, tg, n, xs, f.arity == 2 ? ys : nullptr, -1, "", "", "call abandoned: a data-dependent loop exceeded " + std::to_string(4 * kLoopBound) + " iterations"), false);
        return false;
    }
    bool ok = true;
    for (int l = 0; l < n; ++l)
    {
        if (check && !check[l])
            continue;
        if (pre && pre[l].cls)
        {
            double e;
            if (fast_ok<T>(pre[l], out[l], e))
            {
                cx.st.lane_checks++;
                if (e >= 0)
                    note_err<T>(cx, f, tg, e, xs[l], (T)0);
                else
                    ++g_outside_range;
                continue;
            }
        }
        Verdict v = judge_lane<T>(cx.opt, f, xs[l], f.arity == 2 ? ys[l] : (T)0, out[l], refs[l], arb);
        if (v.v == V_SKIP)
        {
            cx.st.skipped_lanes++;
            continue;
        }
        cx.st.lane_checks++;
        if (v.known)
        {
            cx.st.known_hits++;
            cx.st.known_by_class[v.known]++;
            continue;
        }
        if (v.in_range)
            note_err<T>(cx, f, tg, v.err, xs[l], f.arity == 2 ? ys[l] : (T)0);
        else
            ++g_outside_range;
        if (v.v == V_FAIL)
        {
            ok = false;
            std::string key = std::string(f.name) + ":" + prec<T>::tn + ":" + tg.name;
            if (!cx.has_violation(key))
            {
                // reduce: broadcast the failing lane's operands
                T bx[64], by[64], bo[64];
                for (int i = 0; i < n; ++i)
                {
                    bx[i] = xs[l];
                    by[i] = f.arity == 2 ? ys[l] : (T)0;
                }
                CallResult c2 = call<T>(cx, tg, e, bx, f.arity == 2 ? by : nullptr, bo);
                Verdict v2;
                if (!c2.overflowed)
                    v2 = judge_lane<T>(cx.opt, f, bx[0], by[0], bo[0], refs[l], arb);
                if (!c2.overflowed && v2.v == V_FAIL)
                    cx.add_violation(math_viol<T>(cx, f.name, tg, n, bx, f.arity == 2 ? by : nullptr, 0, v2.exp, lane_str(prec<T>::tid, &bo[0]), v2.why + " [" + layout + " layout; reduced to a broadcast of the failing argument]"));
                else
                    cx.add_violation(math_viol<T>(cx, f.name, tg, n, xs, f.arity == 2 ? ys : nullptr, l, v.exp, lane_str(prec<T>::tid, &out[l]), v.why + " [" + layout + " layout; the broadcast of this argument passes: depends on the companions]"));
            }
        }
    }
    return ok;
}

static uint32_t f2u(float f)
{
    uint32_t u;
    memcpy(&u, &f, 4);
    return u;
}
static float u2f(uint32_t u)
{
    float f;
    memcpy(&f, &u, 4);
    return f;
}

static const float kCompanions32[] = { 0.3f, 2.0f, 50.0f, 3000.0f, 1e9f, -0.7f, 1e-3f, -40.0f };

// ------------------------------------------------------------------------------------------------ C10
static void sample_case(Context& cx, const char* fn, const char* layout, double x, double y, int arity)
{
    std::string g = std::string(fn) + ":" + layout;
    if (!cx.st.want_sample(g, 1))
        return;
    char b[200];
    if (arity == 2)
        snprintf(b, sizeof b, "{\"fn\":\"%s\",\"layout\":\"%s\",\"x\":\"%.9g\",\"y\":\"%.9g\"}", fn, layout, x, y);
    else
        snprintf(b, sizeof b, "{\"fn\":\"%s\",\"layout\":\"%s\",\"x\":\"%.9g\"}", fn, layout, x);
    cx.st.samples.push_back(b);
}

static void c10_unary(Context& cx, const Fn& f, mfn::Arbiter& arb)
{
    FnT ft = resolve_fn<float>(f, cx.opt);
    if (ft.tg.empty())
        return;
    const bool thorough = cx.opt.thorough();
    const uint64_t stride = (uint64_t)cx.opt.geti("stride", thorough ? 13 : 251); // --stride 1 is the exhaustive sweep (about 7 h on 16 cores)
    const uint64_t total = (1ull << 32);
    const uint64_t count = total / stride;
    const uint64_t lo = count * (uint64_t)cx.opt.worker / (uint64_t)cx.opt.nworkers, hi = count * (uint64_t)(cx.opt.worker + 1) / (uint64_t)cx.opt.nworkers;
    const uint64_t phase = stride > 1 ? mix64(cx.opt.seed ^ hash_str(f.name)) % stride : 0;
    const size_t CH = 4096;
    std::vector<float> xs(CH + 64);
    std::vector<ld> refs(CH + 64);
    std::vector<Pre> pre(CH + 64);
    uint64_t nontriv = 0;
    auto process = [&](size_t m, const char* layout) {
        for (size_t i = 0; i < m; ++i)
            pre[i] = prepare_lane<float>(f, xs[i], 0.f, refs[i]);
        // pad to a multiple of 64 with repeats
        for (size_t i = m; i < m + 64; ++i)
        {
            xs[i] = xs[i % m];
            refs[i] = refs[i % m];
            pre[i] = pre[i % m];
        }
        for (size_t ti = 0; ti < ft.tg.size(); ++ti)
        {
            const int n = ft.e[ti]->lanes;
            for (size_t b = 0; b < m; b += n)
                judge_batch<float>(cx, ft, ti, &xs[b], nullptr, &refs[b], nullptr, arb, layout, &pre[b]);
        }
    };
    // (a) neighbour layout: consecutive sampled values fill a batch
    for (uint64_t j = lo; j < hi; j += CH)
    {
        size_t m = (size_t)std::min<uint64_t>(CH, hi - j);
        for (size_t i = 0; i < m; ++i)
        {
            uint32_t u = (uint32_t)(phase + (j + i) * stride);
            xs[i] = u2f(u);
            refs[i] = (ld)f.r32((double)xs[i], 0);
            if (arg_claimed(xs[i]) && !std::isnan((double)refs[i]))
            {
                // non-trivial: outside the friendly interval the suite samples, or near a switch point
                bool nt = !(xs[i] > (float)f.core_lo / 10 && xs[i] < (float)f.core_hi / 10);
                for (double p : f.points)
                    if (std::fabs((double)xs[i] - p) <= 0.01 * std::fabs(p))
                        nt = true;
                if (nt)
                    ++nontriv;
            }
        }
        cx.st.evaluations += m;
        process(m, "neighbour");
    }
    sample_case(cx, f.name, "neighbour", u2f((uint32_t)(phase + lo * stride)), 0, 1);
    // (b) dense windows around every switch point / threshold (both signs)
    if (cx.opt.worker == (int)(hash_str(f.name) % (uint64_t)cx.opt.nworkers))
    {
        const int W = thorough ? 65536 : 2048;
        for (double p : f.points)
            for (int sg = 0; sg < 2; ++sg)
            {
                uint32_t c = f2u((float)(sg ? -p : p));
                size_t m = 0;
                for (int k = -W; k <= W; ++k)
                {
                    xs[m] = u2f(c + (uint32_t)k);
                    refs[m] = (ld)f.r32((double)xs[m], 0);
                    if (++m == CH)
                    {
                        cx.st.evaluations += m;
                        nontriv += m;
                        process(m, "window");
                        m = 0;
                    }
                }
                if (m)
                {
                    cx.st.evaluations += m;
                    nontriv += m;
                    process(m, "window");
                }
            }
        cx.st.cls("switch_point_windows", f.points.size() * 2);
    }
    // (b2) trigonometric functions: the floats nearest to a multiple of pi/2 in every binade (hardest arguments of the reduction)
    if ((f.flags & mfn::LOOPS) && f.arity == 1 && (std::string(f.name) == "sin" || std::string(f.name) == "cos" || std::string(f.name) == "tan" || std::string(f.name).rfind("sincos", 0) == 0)
        && cx.opt.worker == (int)((hash_str(f.name) + 1) % (uint64_t)cx.opt.nworkers))
    {
        static const std::vector<float> hard = pio2_hard_cases<float>();
        size_t m = 0;
        for (float h : hard)
        {
            xs[m] = h;
            refs[m] = (ld)f.r32((double)xs[m], 0);
            ++m;
        }
        cx.st.evaluations += m;
        nontriv += m;
        process(m, "pio2_hard");
        cx.st.cls("pio2_hard_cases", m);
    }
    // (c) companion layout: the tested value in one lane, companions of very different magnitude in the others
    {
        const uint64_t cstride = stride * (thorough ? 64 : 29);
        const uint64_t ccount = total / cstride;
        const uint64_t clo = ccount * (uint64_t)cx.opt.worker / (uint64_t)cx.opt.nworkers, chi = ccount * (uint64_t)(cx.opt.worker + 1) / (uint64_t)cx.opt.nworkers;
        const uint64_t cphase = mix64(cx.opt.seed ^ hash_str(f.name) ^ 0xC0) % cstride;
        float bx[64];
        ld br[64];
        bool chk[64];
        for (uint64_t j = clo; j < chi; ++j)
        {
            float v = u2f((uint32_t)(cphase + j * cstride));
            if (!arg_claimed(v))
                continue;
            ld r = (ld)f.r32((double)v, 0);
            cx.st.evaluations++;
            for (size_t ti = 0; ti < ft.tg.size(); ++ti)
            {
                const int n = ft.e[ti]->lanes;
                const int pos = (int)((j + ti) % (uint64_t)n);
                for (int l = 0; l < n; ++l)
                {
                    float c = kCompanions32[(j + (uint64_t)l) % 8];
                    if (l % 5 == 4)
                        c = -v; // "-same" companion
                    if ((j % 7) == 3 && l == (pos + 1) % n)
                        c = std::numeric_limits<float>::quiet_NaN();
                    if ((j % 7) == 5 && l == (pos + 1) % n)
                        c = std::numeric_limits<float>::infinity();
                    bx[l] = c;
                    chk[l] = false;
                }
                bx[pos] = v;
                br[pos] = r;
                chk[pos] = true;
                judge_batch<float>(cx, ft, ti, bx, nullptr, br, chk, arb, "companion");
            }
            ++nontriv;
        }
        sample_case(cx, f.name, "companion", u2f((uint32_t)(cphase + clo * cstride)), 0, 1);
    }
    cx.st.distinct_extra += nontriv; // sampled bit patterns are pairwise distinct by construction
    cx.st.nontrivial_cases += nontriv;
    cx.st.per_group[std::string(f.name) + ":f32"] += hi - lo;
}

// structured + rapidcheck pairs for the binary functions
template <class T>
static void binary_pairs(Context& cx, const Fn& f, mfn::Arbiter& arb, long budget)
{
    FnT ft = resolve_fn<T>(f, cx.opt);
    if (ft.tg.empty())
        return;
    using L = std::numeric_limits<T>;
    const std::string n = f.name;
    rc::detail::TestParams params = rc::detail::configuration().testParams;
    params.seed = mix64(params.seed ^ hash_str(f.name, sizeof(T)));
    params.maxSuccess = (int)budget;
    rc::detail::TestMetadata md;
    md.id = n + ":" + prec<T>::tn;
    auto mag = [](int lo, int hi) {
        return rc::gen::map(rc::gen::tuple(rc::gen::inRange<int>(lo, hi), rc::gen::arbitrary<uint32_t>(), rc::gen::arbitrary<bool>()), [](std::tuple<int, uint32_t, bool> t) {
            double m = 1.0 + (double)(mix64(std::get<1>(t)) >> 12) / 4503599627370496.0;
            double v = std::ldexp(m, std::get<0>(t));
            return std::get<2>(t) ? -v : v;
        });
    };
    const int emax = L::max_exponent - 2, emin = L::min_exponent + 1;
    rc::detail::checkTestable(
        [&]() {
            const int nmax = 64 / (int)sizeof(T);
            T xs[64], ys[64];
            ld refs[64];
            const int cls = *rc::gen::resize(100, rc::gen::inRange<int>(0, n == "pow" ? 8 : 6));
            for (int l = 0; l < nmax; ++l)
            {
                double x, y;
                if (n == "pow")
                {
                    switch (cls)
                    {
                    case 6:
                    case 7:
                    {
                        // negative base, integral exponent at the edge of the significand: every integer is representable up to 2^digits
                        // (odd ones included), beyond it all values are even integers -- the parity test of pow decides the sign of the result.
                        // class 6: |base| away from 1 (the result saturates: the sign is judged); class 7: base = -(1 +- k eps) (the result stays in range)
                        const int dg = L::digits;
                        const int p = *rc::gen::resize(100, rc::gen::inRange<int>(dg - 3, dg + 8));
                        const int j = *rc::gen::resize(100, rc::gen::inRange<int>(-5, 6));
                        double yy = std::ldexp(1.0, p) + (double)j * std::max(1.0, std::ldexp(1.0, p - dg + 1));
                        if (*rc::gen::arbitrary<bool>())
                            yy = -yy;
                        y = yy;
                        if (cls == 6)
                            x = -std::fabs(*mag(-3, 4));
                        else
                            x = -(1.0 + (double)*rc::gen::resize(100, rc::gen::inRange<int>(-6, 7)) * (double)L::epsilon());
                        break;
                    }
                    case 0: x = std::fabs(*mag(-4, 5)); y = *mag(-3, 6); break; // moderate
                    case 1: x = std::fabs(*mag(-1, 1)) ; y = *mag(3, 9); break; // base near 1..2, larger exponents
                    case 2: x = std::fabs(*mag(emin / 2, emax / 2)); y = *mag(-2, 2); break; // wide bases
                    case 3: x = std::fabs(*mag(-8, 9)); y = (double)*rc::gen::inRange<int>(-40, 41); break; // integer exponents
                    case 4: x = -std::fabs(*mag(-6, 7)); y = (double)*rc::gen::inRange<int>(-30, 31); break; // negative base, integral exponent
                    default: x = std::fabs(*mag(-6, 7)); y = (double)*rc::gen::inRange<int>(-60, 61) / 2.0; break; // half-integers
                    }
                }
                else if (n == "atan2")
                {
                    switch (cls)
                    {
                    case 0: x = *mag(-10, 11); y = *mag(-10, 11); break;
                    case 1: x = *mag(emin, emax); y = *mag(emin, emax); break;
                    case 2: { x = *mag(-5, 6); double k = *rc::gen::element(1.0, 0.41421356237309503, 2.414213562373095, 0.66, 1e-4); y = x * k * (1 + (double)*rc::gen::inRange<int>(-8, 9) * (double)L::epsilon()); break; }
                    case 3: x = *mag(-3, 4); y = *mag(20, 40); break;
                    case 4: x = *mag(20, 40); y = *mag(-3, 4); break;
                    default: x = (double)*rc::gen::inRange<int>(-5, 6); y = (double)*rc::gen::inRange<int>(-5, 6); break;
                    }
                    if (x == 0 && y == 0)
                        y = 1;
                }
                else
                {
                    switch (cls)
                    {
                    case 0: x = *mag(-10, 11); y = *mag(-10, 11); break;
                    case 1: x = *mag(emin / 2 + 2, emax / 2 - 1); y = *mag(emin / 2 + 2, emax / 2 - 1); break;
                    case 2: { x = *mag(-20, 21); y = x * std::ldexp(1.0, *rc::gen::inRange<int>(-30, 31)); break; }
                    case 3: x = *mag(emax / 2 - 4, emax / 2 - 1); y = *mag(emax / 2 - 4, emax / 2 - 1); break;
                    case 4: x = (double)*rc::gen::inRange<int>(-100, 101); y = (double)*rc::gen::inRange<int>(-100, 101); break;
                    default: x = *mag(-3, 4); y = 0.0; break;
                    }
                }
                xs[l] = (T)x;
                ys[l] = (T)y;
                refs[l] = sizeof(T) == 4 ? (ld)f.r32((double)xs[l], (double)ys[l]) : f.r64((ld)xs[l], (ld)ys[l]);
            }
            cx.st.evaluations++;
            cx.st.note_distinct(hash_bytes(xs, sizeof(T) * nmax, hash_bytes(ys, sizeof(T) * nmax, hash_str(f.name))));
            cx.st.cls((std::string("pairs_class_") + std::to_string(cls)).c_str());
            sample_case(cx, f.name, ("pairs" + std::to_string(cls)).c_str(), (double)xs[0], (double)ys[0], 2);
            bool ok = true;
            for (size_t ti = 0; ti < ft.tg.size(); ++ti)
                ok = judge_batch<T>(cx, ft, ti, xs, ys, refs, nullptr, arb, "pairs") && ok;
            (void)ok; // the search continues after a failure: records are already reduced to one argument
        },
        md, params);
}

static void run_c10(Context& cx)
{
    mfn::Arbiter arb(160);
    for (auto& f : mfn::table())
    {
        if (!cx.opt.only_ops.empty() && !cx.opt.only_ops.count(f.name))
            continue;
        if (f.arity == 1)
            c10_unary(cx, f, arb);
        else
            binary_pairs<float>(cx, f, arb, cx.opt.budget);
        cx.write_out();
    }
}

#include "d_math_more.hpp"

// ------------------------------------------------------------------------------------------------ replay
template <class T>
static int replay_t(Context& cx, const std::vector<std::string>& tok)
{
    // tokens: op type target imm xhex yhex
    const Fn* f = mfn::find(tok[0]);
    auto xb = unhex(tok[4]);
    std::vector<unsigned char> yb;
    if (tok.size() > 5 && tok[5] != "-")
        yb = unhex(tok[5]);
    int bad = 0, ran = 0;
    mfn::Arbiter arb(sizeof(T) == 4 ? 160 : 256);
    for (auto& tg : g_targets)
    {
        if (tok[2] != "*" && tok[2] != tg.name)
            continue;
        const xsv_entry* e = tg.find(tok[0], prec<T>::tn);
        if (!e)
            continue;
        const int n = e->lanes;
        if (xb.size() < (size_t)n * sizeof(T))
            continue;
        T xs[64], ys[64];
        memcpy(xs, xb.data(), (size_t)n * sizeof(T));
        memset(ys, 0, sizeof ys);
        if (!yb.empty())
            memcpy(ys, yb.data(), std::min(yb.size(), (size_t)n * sizeof(T)));
        ++ran;
        if (!replay_case_prop<T>(cx, f, tok[0], tg, e, xs, ys, arb))
            ++bad;
    }
    if (bad)
        printf("REPLAY-FAIL %s\n", cx.violations.empty() ? "{}" : cx.violations[0].to_json().c_str());
    else
        printf(ran ? "REPLAY-PASS (known_hits=%llu)\n" : "REPLAY-SKIP\n", (unsigned long long)cx.st.known_hits);
    return bad ? 1 : 0;
}

int main(int argc, char** argv)
{
    Context cx;
    cx.opt = parse_options(argc, argv);
    g_ctx() = &cx;
    install_crash_handlers();
    g_targets = load_targets(cx.opt, "math");
    for (auto& t : g_targets)
        arm_ticks(t);
    if (!cx.opt.replay.empty())
    {
        if (cx.opt.replay.size() < 5)
            return 2;
        return cx.opt.replay[1] == "f32" ? replay_t<float>(cx, cx.opt.replay) : replay_t<double>(cx, cx.opt.replay);
    }
    const std::string p = cx.opt.prop;
    if (p == "C10")
        run_c10(cx);
    else if (p == "C11")
        run_c11(cx);
    else if (p == "C12")
        run_c12(cx);
    else if (p == "C13")
        run_c13(cx);
    else if (p == "C14")
        run_c14(cx);
    else if (p == "C17")
        run_c17(cx);
    else
    {
        fprintf(stderr, "d_math: unknown property %s\n", p.c_str());
        return 2;
    }
    cx.st.classes["lanes_outside_claimed_range(graceful degradation judged)"] += g_outside_range;
    cx.write_out();
    return cx.violations.empty() ? 0 : 1;
}
