// C05 (run-time part): data-movement operations are pure lane permutations with the documented index map.
// Inputs carry a distinct bit pattern per lane (x and y disjoint), so any wrong source lane is visible;
// outputs are compared byte for byte with the model (floats move with their NaN payloads).
#include <rapidcheck.h>

#include "xsv.hpp"

using namespace xsv;

struct MCase
{
    std::string op;
    TypeId type;
    int n = 0; // lanes of the target this case was built for
    std::vector<unsigned char> x, y, aux; // aux: index image (swizzle_dyn) or mask bytes (compress/expand)
    int64_t imm = 0;
    std::string cls;
};

static int tb(TypeId t) { return kTypeBytes[t]; }

// distinct lane patterns: lane i of x gets tag i, lane i of y gets tag n+i, in the low bits; random bits above
static void fill_tags(std::vector<unsigned char>& v, TypeId t, int count, int tag0, uint64_t seed)
{
    const int eb = tb(t);
    v.assign((size_t)count * eb, 0);
    for (int i = 0; i < count; ++i)
    {
        uint64_t tag = (uint64_t)(tag0 + i);
        uint64_t hi = mix64(seed + (uint64_t)i * 77);
        uint64_t val;
        if (eb == 1)
            val = (tag * 37 + (seed & 0xff)) & 0xff; // a bijection of 0..255 (37 is odd)
        else
            val = (hi << 12) | (tag + 1);
        memcpy(&v[(size_t)i * eb], &val, eb);
    }
}

// model: for every output byte, the expected value
static bool model(const MCase& c, std::vector<unsigned char>& exp, std::string& maptxt)
{
    const int n = c.n, eb = tb(c.type);
    const int bytes = n * eb;
    auto lane = [&](std::vector<unsigned char>& o, int i, const std::vector<unsigned char>& src, int j) { memcpy(&o[(size_t)i * eb], &src[(size_t)j * eb], eb); };
    exp.assign(bytes, 0);
    const std::string& op = c.op;
    if (op == "swizzle_dyn")
    {
        for (int i = 0; i < n; ++i)
        {
            uint64_t k = 0;
            memcpy(&k, &c.aux[(size_t)i * eb], eb);
            lane(exp, i, c.x, (int)k);
        }
    }
    else if (op == "zip_lo" || op == "zip_hi")
    {
        const int off = op == "zip_hi" ? n / 2 : 0;
        for (int i = 0; i < n; ++i)
            lane(exp, i, (i % 2) ? c.y : c.x, off + i / 2);
    }
    else if (op == "slide_left")
    {
        for (int j = 0; j < bytes; ++j)
            exp[j] = j >= c.imm ? c.x[j - c.imm] : 0;
    }
    else if (op == "slide_right")
    {
        for (int j = 0; j < bytes; ++j)
            exp[j] = j + c.imm < bytes ? c.x[j + c.imm] : 0;
    }
    else if (op == "rotate_left")
    {
        for (int i = 0; i < n; ++i)
            lane(exp, i, c.x, (i + (int)c.imm) % n);
    }
    else if (op == "rotate_right")
    {
        for (int i = 0; i < n; ++i)
            lane(exp, i, c.x, (i + n - (int)c.imm) % n);
    }
    else if (op == "extract_pair")
    {
        const int k = (int)c.imm;
        for (int i = 0; i < n; ++i)
        {
            if (i + k < n)
                lane(exp, i, c.y, i + k);
            else
                lane(exp, i, c.x, i + k - n);
        }
    }
    else if (op == "insert")
    {
        exp = c.x;
        memcpy(&exp[(size_t)c.imm * eb], &c.y[0], eb);
    }
    else if (op == "compress")
    {
        int j = 0;
        for (int i = 0; i < n; ++i)
            if (c.aux[i])
                lane(exp, j++, c.x, i);
    }
    else if (op == "expand")
    {
        int j = 0;
        for (int i = 0; i < n; ++i)
            if (c.aux[i])
                lane(exp, i, c.x, j++);
    }
    else if (op == "transpose")
    {
        exp.assign((size_t)bytes * n, 0);
        for (int r = 0; r < n; ++r)
            for (int col = 0; col < n; ++col)
                memcpy(&exp[((size_t)r * n + col) * eb], &c.x[((size_t)col * n + r) * eb], eb);
    }
    else if (op == "get")
    {
        exp.assign(eb, 0);
        memcpy(&exp[0], &c.x[(size_t)c.imm * eb], eb);
    }
    else
        return false;
    (void)maptxt;
    return true;
}

static Violation mkviol(const MCase& c, const Target& tg, int lane, const std::string& exp, const std::string& got, const std::string& why)
{
    Violation v;
    v.kind = "move";
    v.prop = g_ctx() && !g_ctx()->opt.prop.empty() ? g_ctx()->opt.prop : std::string("C05"); // C19 runs the compile-time-count operations of this driver
    v.op = c.op;
    v.type = kTypeNames[c.type];
    v.target = tg.name;
    v.lane = lane;
    v.imm[0] = c.imm;
    v.in_hex = { hex(c.x.data(), c.x.size()), hex(c.y.data(), c.y.size()), hex(c.aux.data(), c.aux.size()) };
    v.expected = exp;
    v.got = got;
    v.why = why + " [class " + c.cls + "]";
    return v;
}

static bool exec_case(Context& cx, const MCase& c, const Target& tg, const xsv_entry* e)
{
    const int n = e->lanes, eb = tb(c.type);
    std::vector<unsigned char> exp;
    std::string mt;
    if (!model(c, exp, mt))
        return true;
    static unsigned char* out = (unsigned char*)aligned_alloc(64, 1 << 16);
    memset(out, 0xCD, exp.size() + 64);
    alignas(64) unsigned char ybuf[64], auxbuf[64];
    memset(ybuf, 0, 64);
    memset(auxbuf, 0, 64);
    if (!c.y.empty())
        memcpy(ybuf, c.y.data(), std::min<size_t>(64, c.y.size()));
    if (!c.aux.empty())
        memcpy(auxbuf, c.aux.data(), std::min<size_t>(64, c.aux.size()));
    std::vector<unsigned char> xin(c.x);
    xin.resize(std::max<size_t>(xin.size(), 64));
    xsv_args a;
    memset(&a, 0, sizeof a);
    a.in[0] = xin.data();
    a.in[1] = c.op == "swizzle_dyn" ? auxbuf : ybuf;
    a.in[2] = auxbuf;
    a.out[0] = out;
    a.imm[0] = c.imm;
    cx.current_valid = true;
    cx.current = mkviol(c, tg, -1, "", "", "");
    e->fn(&a);
    cx.current_valid = false;
    cx.st.executions++;
    cx.st.lane_checks += exp.size() / eb;
    if (memcmp(out, exp.data(), exp.size()) != 0)
    {
        size_t j = 0;
        while (out[j] == exp[j])
            ++j;
        int lane = (int)(j / eb);
        cx.add_violation(mkviol(c, tg, lane % n, lane_str(c.type, &exp[(size_t)lane * eb]), lane_str(c.type, out + (size_t)lane * eb),
                                "output lane " + std::to_string(lane) + " does not hold the source lane prescribed by the operation's index map (imm=" + std::to_string(c.imm) + ")"));
        return false;
    }
    // guard: nothing written beyond the result image
    for (size_t k = exp.size(); k < exp.size() + 64; ++k)
        if (out[k] != 0xCD)
        {
            cx.add_violation(mkviol(c, tg, -1, "", "", "bytes beyond the result were written"));
            return false;
        }
    return true;
}

static void note_case(Context& cx, const MCase& c, bool nontrivial)
{
    cx.st.evaluations++;
    std::string g = c.op + ":" + kTypeNames[c.type];
    cx.st.per_group[g]++;
    cx.st.cls(("class_" + c.cls).c_str());
    if (nontrivial)
    {
        uint64_t h = hash_str(c.op, c.type * 131 + (uint64_t)c.imm * 7919 + (uint64_t)c.n);
        h = hash_bytes(c.aux.data(), c.aux.size(), h);
        h = hash_bytes(c.x.data(), std::min<size_t>(c.x.size(), 64), h);
        cx.st.note_distinct(h);
        if (cx.st.want_sample(g + ":" + std::to_string(c.n), 1))
        {
            std::string s = "{\"op\":" + jstr(c.op) + ",\"type\":" + jstr(kTypeNames[c.type]) + ",\"lanes\":" + std::to_string(c.n) + ",\"imm\":" + std::to_string(c.imm) + ",\"class\":" + jstr(c.cls) + ",\"aux\":" + jstr(hex(c.aux.data(), std::min<size_t>(c.aux.size(), 16))) + ",\"x_head\":" + jstr(hex(c.x.data(), std::min<size_t>(c.x.size(), 16))) + "}";
            cx.st.samples.push_back(s);
        }
    }
    else
        cx.st.cls("trivial");
}

// build the operands for a target with n lanes
static MCase base_case(const std::string& op, TypeId t, int n, uint64_t seed)
{
    MCase c;
    c.op = op;
    c.type = t;
    c.n = n;
    if (op == "transpose")
        fill_tags(c.x, t, n * n, 0, seed);
    else
        fill_tags(c.x, t, n, 0, seed);
    fill_tags(c.y, t, n, n, seed);
    return c;
}
static void set_idx(MCase& c, const std::vector<int>& idx)
{
    const int eb = tb(c.type);
    c.aux.assign((size_t)c.n * eb, 0);
    for (int i = 0; i < c.n; ++i)
    {
        uint64_t v = (uint64_t)idx[i];
        memcpy(&c.aux[(size_t)i * eb], &v, eb);
    }
}
static void set_mask(MCase& c, uint64_t m)
{
    c.aux.assign(c.n, 0);
    for (int i = 0; i < c.n; ++i)
        c.aux[i] = (m >> i) & 1;
}

int main(int argc, char** argv)
{
    Context cx;
    cx.opt = parse_options(argc, argv);
    g_ctx() = &cx;
    install_crash_handlers();
    cx.termination_only = cx.opt.prop == "C14" && cx.opt.replay.empty(); // C14 stage: execute everything, report only calls that do not return
    auto targets = load_targets(cx.opt, "move");

    if (!cx.opt.replay.empty())
    {
        const auto& tok = cx.opt.replay; // op type target imm x y aux
        if (tok.size() < 7)
            return 2;
        MCase c;
        c.op = tok[0];
        c.type = type_from_name(tok[1]);
        c.imm = atoll(tok[3].c_str());
        c.x = unhex(tok[4]);
        c.y = unhex(tok[5]);
        c.aux = unhex(tok[6]);
        c.cls = "replay";
        int bad = 0, ran = 0;
        for (auto& tg : targets)
        {
            if (tok[2] != "*" && tok[2] != tg.name)
                continue;
            const xsv_entry* e = tg.find(c.op, kTypeNames[c.type]);
            if (!e)
                continue;
            c.n = e->lanes;
            if (c.y.size() != (size_t)c.n * tb(c.type))
                continue; // the case was built for another register width
            ++ran;
            if (!exec_case(cx, c, tg, e))
                ++bad;
        }
        if (bad)
            printf("REPLAY-FAIL %s\n", cx.violations[0].to_json().c_str());
        else
            printf(ran ? "REPLAY-PASS\n" : "REPLAY-SKIP\n");
        return bad ? 1 : 0;
    }

    static const char* ops[] = { "swizzle_dyn", "zip_lo", "zip_hi", "slide_left", "slide_right", "rotate_left", "rotate_right", "extract_pair", "insert", "compress", "expand", "transpose", "get" };
    struct Item
    {
        std::string op;
        TypeId t;
    };
    std::vector<Item> items;
    for (const char* op : ops)
        for (int t = 0; t <= F64; ++t)
            items.push_back({ op, (TypeId)t });
    const bool thorough = cx.opt.thorough();
    const long budget = std::max<long>(1, cx.opt.budget);
    for (size_t ii = 0; ii < items.size(); ++ii)
    {
        if ((int)(ii % cx.opt.nworkers) != cx.opt.worker)
            continue;
        const Item& it = items[ii];
        if (!cx.opt.only_ops.empty() && !cx.opt.only_ops.count(it.op))
            continue;
        for (auto& tg : targets)
        {
            const xsv_entry* e = tg.find(it.op, kTypeNames[it.t]);
            if (!e)
                continue;
            cx.st.per_target[tg.name]++;
            const int n = e->lanes, eb = tb(it.t);
            const uint64_t s0 = mix64(cx.opt.seed * 7919 + hash_str(it.op, it.t));
            auto run = [&](MCase& c, const char* cls, bool nontrivial) {
                c.cls = cls;
                note_case(cx, c, nontrivial);
                return exec_case(cx, c, tg, e);
            };
            const std::string& op = it.op;
            if (op == "zip_lo" || op == "zip_hi")
            {
                for (long r = 0; r < budget * 4; ++r)
                {
                    MCase c = base_case(op, it.t, n, s0 + r);
                    run(c, "tags", true);
                }
            }
            else if (op == "slide_left" || op == "slide_right")
            {
                for (int N = 0; N <= n * eb; ++N)
                    for (long r = 0; r < std::max<long>(1, budget / 8); ++r)
                    {
                        MCase c = base_case(op, it.t, n, s0 + r);
                        c.imm = N;
                        run(c, N % eb ? "count_not_multiple_of_element" : "count_multiple_of_element", N != 0);
                    }
                cx.st.cls("all_counts_enumerated");
            }
            else if (op == "rotate_left" || op == "rotate_right" || op == "extract_pair" || op == "insert" || op == "get")
            {
                for (int N = 0; N < n; ++N)
                    for (long r = 0; r < std::max<long>(1, budget / 8); ++r)
                    {
                        MCase c = base_case(op, it.t, n, s0 + r);
                        c.imm = N;
                        run(c, "all_counts", op == "insert" || op == "get" || N != 0);
                    }
                cx.st.cls("all_counts_enumerated");
            }
            else if (op == "transpose")
            {
                for (long r = 0; r < budget; ++r)
                {
                    MCase c = base_case(op, it.t, n, s0 + r);
                    run(c, "matrix", true);
                }
            }
            else if (op == "compress" || op == "expand")
            {
                const uint64_t full = n >= 64 ? ~0ull : ((1ull << n) - 1);
                if (n <= (thorough ? 20 : 16))
                {
                    for (uint64_t m = 0; m <= full; ++m)
                    {
                        MCase c = base_case(op, it.t, n, s0 + m);
                        set_mask(c, m);
                        run(c, "all_masks", m != 0 && m != full);
                    }
                    cx.st.cls("mask_spaces_enumerated_exhaustively");
                }
                else
                {
                    std::vector<uint64_t> fam = { 0, full };
                    for (int l = 0; l < n; ++l)
                    {
                        fam.push_back(1ull << l);
                        fam.push_back(full & ~(1ull << l));
                        fam.push_back((1ull << l) - 1);
                        fam.push_back(full & ~((1ull << l) - 1));
                    }
                    for (int period : { 2, 3, 4, 8 })
                        for (int ph = 0; ph < period; ++ph)
                        {
                            uint64_t m = 0;
                            for (int l = 0; l < n; ++l)
                                if ((l + ph) % period == 0)
                                    m |= 1ull << l;
                            fam.push_back(m);
                        }
                    for (uint64_t m : fam)
                    {
                        MCase c = base_case(op, it.t, n, s0 + m);
                        set_mask(c, m);
                        run(c, "mask_family", m != 0 && m != full);
                    }
                }
                // rapidcheck masks
                rc::detail::TestParams params = rc::detail::configuration().testParams;
                params.seed = mix64(params.seed ^ hash_str(op, it.t) ^ hash_str(tg.name));
                params.maxSuccess = (int)(budget * 10);
                rc::detail::TestMetadata md;
                md.id = op + ":" + kTypeNames[it.t] + ":" + tg.name;
                rc::detail::checkTestable(
                    [&]() {
                        auto bits = *rc::gen::container<std::vector<bool>>((size_t)n, rc::gen::arbitrary<bool>());
                        uint64_t m = 0;
                        for (int l = 0; l < n; ++l)
                            if (bits[l])
                                m |= 1ull << l;
                        MCase c = base_case(op, it.t, n, s0 ^ m);
                        set_mask(c, m);
                        c.cls = "rc_mask";
                        note_case(cx, c, m != 0 && m != full);
                        RC_ASSERT(exec_case(cx, c, tg, e) || cx.termination_only);
                    },
                    md, params);
            }
            else if (op == "swizzle_dyn")
            {
                // families: identity, reverse, broadcast-k, rotate-k, in-128-bit-lane patterns, cross-lane swaps
                std::vector<std::pair<std::string, std::vector<int>>> fam;
                std::vector<int> v(n);
                for (int i = 0; i < n; ++i)
                    v[i] = i;
                fam.push_back({ "identity", v });
                for (int i = 0; i < n; ++i)
                    v[i] = n - 1 - i;
                fam.push_back({ "reverse", v });
                for (int k = 0; k < n; ++k)
                {
                    for (int i = 0; i < n; ++i)
                        v[i] = k;
                    fam.push_back({ "broadcast", v });
                    for (int i = 0; i < n; ++i)
                        v[i] = (i + k) % n;
                    fam.push_back({ "rotate", v });
                }
                const int per128 = std::max(1, 16 / eb);
                for (int i = 0; i < n; ++i)
                    v[i] = (i / per128) * per128 + (per128 - 1 - i % per128);
                fam.push_back({ "in_lane_reverse", v });
                for (int i = 0; i < n; ++i)
                    v[i] = (i + per128) % n;
                fam.push_back({ "cross_lane_swap", v });
                for (int i = 0; i < n; ++i)
                    v[i] = (i % 2) ? i - 1 : std::min(n - 1, i + 1);
                fam.push_back({ "pair_swap", v });
                for (int i = 0; i < n; ++i)
                    v[i] = (i * 2) % n;
                fam.push_back({ "dup_even", v });
                for (auto& f : fam)
                {
                    MCase c = base_case(op, it.t, n, s0 + f.second[0]);
                    set_idx(c, f.second);
                    run(c, f.first.c_str(), f.first != "identity");
                }
                if (n <= 4)
                {
                    // all n^n index vectors
                    uint64_t total = 1;
                    for (int i = 0; i < n; ++i)
                        total *= n;
                    for (uint64_t k = 0; k < total; ++k)
                    {
                        uint64_t q = k;
                        for (int i = 0; i < n; ++i)
                        {
                            v[i] = (int)(q % n);
                            q /= n;
                        }
                        MCase c = base_case(op, it.t, n, s0 + k);
                        set_idx(c, v);
                        run(c, "all_index_vectors", true);
                    }
                    cx.st.cls("index_spaces_enumerated_exhaustively");
                }
                rc::detail::TestParams params = rc::detail::configuration().testParams;
                params.seed = mix64(params.seed ^ hash_str(op, it.t) ^ hash_str(tg.name));
                params.maxSuccess = (int)(budget * 20);
                rc::detail::TestMetadata md;
                md.id = op + ":" + kTypeNames[it.t] + ":" + tg.name;
                rc::detail::checkTestable(
                    [&]() {
                        auto idx = *rc::gen::container<std::vector<int>>((size_t)n, rc::gen::resize(100, rc::gen::inRange<int>(0, n)));
                        MCase c = base_case(op, it.t, n, s0 ^ (uint64_t)idx[0]);
                        set_idx(c, idx);
                        c.cls = "rc_index";
                        note_case(cx, c, true);
                        RC_ASSERT(exec_case(cx, c, tg, e) || cx.termination_only);
                    },
                    md, params);
            }
        }
        cx.write_out();
    }
    cx.write_out();
    return cx.violations.empty() ? 0 : 1;
}
