// stub
static void run_c11(Context&) {}
