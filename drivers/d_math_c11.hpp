// C11: double-precision accuracy.  The domain cannot be enumerated: rapidcheck-driven boundary-directed sampling.
static double ulp_step(double v, int k)
{
    uint64_t u;
    memcpy(&u, &v, 8);
    // move k ulps away from zero (k>0) or towards zero (k<0) in the bit-pattern ordering of |v|
    u = (uint64_t)((int64_t)u + k);
    double r;
    memcpy(&r, &u, 8);
    return r;
}

static rc::Gen<double> c11_arg(const Fn& f, int cls)
{
    using namespace rc;
    const bool trig = mfn::kind_of(f) == mfn::K_TRIG;
    auto mant = gen::map(gen::arbitrary<uint64_t>(), [](uint64_t v) { return 1.0 + (double)(mix64(v) >> 12) / 4503599627370496.0; });
    auto sign = gen::arbitrary<bool>();
    switch (cls)
    {
    case 0: // log-uniform over the whole exponent range
        return gen::map(gen::tuple(gen::inRange<int>(-1021, 1024), mant, sign), [](std::tuple<int, double, bool> t) { double v = std::ldexp(std::get<1>(t), std::get<0>(t)); return std::get<2>(t) ? -v : v; });
    case 1: // uniform in the core interval
    {
        const double lo = f.core_lo, hi = f.core_hi;
        return gen::map(gen::arbitrary<uint64_t>(), [lo, hi](uint64_t v) { return lo + (hi - lo) * ((double)(mix64(v) >> 11) / 9007199254740992.0); });
    }
    case 2: // binade boundaries +- 64 ulp
        return gen::map(gen::tuple(gen::inRange<int>(-1021, 1024), gen::inRange<int>(-64, 65), sign), [](std::tuple<int, int, bool> t) { double v = ulp_step(std::ldexp(1.0, std::get<0>(t)), std::get<1>(t)); return std::get<2>(t) ? -v : v; });
    case 3: // switch points +- 64 ulp
    {
        std::vector<double> pts = f.points;
        return gen::map(gen::tuple(gen::elementOf(pts), gen::inRange<int>(-64, 65), sign), [](std::tuple<double, int, bool> t) { double p = std::get<0>(t); double v = p == 0 ? std::get<1>(t) * 4.9406564584124654e-324 : ulp_step(p, std::get<1>(t)); return std::get<2>(t) ? -v : v; });
    }
    case 4: // k*pi/2 +- few ulp (trigonometric functions); otherwise small integers and half-integers +- ulp
        if (trig)
            return gen::map(gen::tuple(gen::inRange<int>(0, 60), mant, gen::inRange<int>(-64, 65), sign), [](std::tuple<int, double, int, bool> t) {
                double k = std::floor(std::ldexp(std::get<1>(t), std::get<0>(t)));
                double v = (double)((long double)k * 1.57079632679489661923132169163975144L);
                v = ulp_step(v == 0 ? 1.5707963267948966 : v, std::get<2>(t));
                return std::get<3>(t) ? -v : v; });
        return gen::map(gen::tuple(gen::inRange<int>(-400, 401), gen::inRange<int>(-8, 9)), [](std::tuple<int, int> t) { double v = std::get<0>(t) / 2.0; return v == 0 ? std::get<1>(t) * 1e-300 : ulp_step(v, std::get<1>(t)); });
    default: // moderate magnitudes
        return gen::map(gen::tuple(gen::inRange<int>(-12, 13), mant, sign), [](std::tuple<int, double, bool> t) { double v = std::ldexp(std::get<1>(t), std::get<0>(t)); return std::get<2>(t) ? -v : v; });
    }
}
static const double kCompanions64[] = { 0.3, 2.0, 50.0, 3000.0, 1e9, -0.7, 1e-3, -40.0, 1e300, 1e-300 };

static void c11_unary(Context& cx, const Fn& f, mfn::Arbiter& arb, long budget)
{
    FnT ft = resolve_fn<double>(f, cx.opt);
    if (ft.tg.empty())
        return;
    rc::detail::TestParams params = rc::detail::configuration().testParams;
    params.seed = mix64(params.seed ^ hash_str(f.name, 64));
    params.maxSuccess = (int)budget;
    rc::detail::TestMetadata md;
    md.id = std::string(f.name) + ":f64";
    rc::detail::checkTestable(
        [&]() {
            const int cls = *rc::gen::resize(100, rc::gen::inRange<int>(0, 6));
            const bool companion = *rc::gen::resize(100, rc::gen::inRange<int>(0, 4)) == 0;
            auto v = *rc::gen::container<std::vector<double>>((size_t)8, rc::gen::resize(100, c11_arg(f, cls)));
            double xs[8];
            ld refs[8];
            bool chk[8];
            const int pos = companion ? *rc::gen::resize(100, rc::gen::inRange<int>(0, 8)) : 0;
            const int cset = companion ? *rc::gen::resize(100, rc::gen::inRange<int>(0, 10)) : 0;
            for (int l = 0; l < 8; ++l)
            {
                xs[l] = v[l];
                chk[l] = true;
                if (companion && (l % 2) != (pos % 2))
                {
                    // half of the lanes hold companions of very different magnitude (a NaN / inf among them now and then)
                    xs[l] = kCompanions64[(cset + l) % 10];
                    if (cset == 7 && l == (pos + 1) % 8)
                        xs[l] = std::numeric_limits<double>::quiet_NaN();
                    if (cset == 8 && l == (pos + 1) % 8)
                        xs[l] = -std::numeric_limits<double>::infinity();
                    chk[l] = false;
                }
                refs[l] = f.r64((ld)xs[l], 0);
            }
            cx.st.evaluations++;
            cx.st.note_distinct(hash_bytes(xs, sizeof xs, hash_str(f.name)));
            static const char* cn[] = { "log_uniform", "core_uniform", "binade_boundary", "switch_point", "k_pio2_or_half_integers", "moderate" };
            cx.st.classes[std::string("class_") + cn[cls] + (companion ? "_companion" : "_neighbour")]++;
            sample_case(cx, f.name, (std::string(cn[cls]) + (companion ? "_companion" : "")).c_str(), xs[pos], 0, 1);
            bool ok = true;
            for (size_t ti = 0; ti < ft.tg.size(); ++ti)
            {
                // narrower targets see the lanes of the case in consecutive batches
                const int n = ft.e[ti]->lanes;
                for (int b = 0; b < 8; b += n)
                    ok = judge_batch<double>(cx, ft, ti, xs + b, nullptr, refs + b, chk + b, arb, companion ? "companion" : "neighbour") && ok;
            }
            (void)ok; // the search continues after a failure: records are already reduced to one argument
        },
        md, params);
    cx.st.per_group[md.id] += (uint64_t)budget;
}

static void run_c11(Context& cx)
{
    mfn::Arbiter arb(256);
    for (auto& f : mfn::table())
    {
        if (!cx.opt.only_ops.empty() && !cx.opt.only_ops.count(f.name))
            continue;
        if (f.arity == 1)
            c11_unary(cx, f, arb, cx.opt.budget);
        else
            binary_pairs<double>(cx, f, arb, cx.opt.budget);
        cx.write_out();
    }
}
