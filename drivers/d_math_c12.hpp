// C12: special values, domains, exact identities and symmetries of the elementary functions.
enum Want
{
    W_NAN,
    W_PINF,
    W_NINF,
    W_EXACT, // bit-identical to `val`
    W_NUM // numerically equal to `val` (either zero)
};
struct Row
{
    const char* fn;
    double x, y; // y unused for unary
    Want want;
    double val;
};
static const double kNaN = std::numeric_limits<double>::quiet_NaN(), kInf = std::numeric_limits<double>::infinity();

template <class T>
static std::vector<Row> c12_rows()
{
    using L = std::numeric_limits<T>;
    const double MAX = (double)L::max(), DEN = (double)L::denorm_min();
    std::vector<Row> r;
    static const char* unary[] = { "exp", "exp2", "exp10", "expm1", "log", "log2", "log10", "log1p", "sin", "cos", "tan", "sincos_s", "sincos_c", "asin", "acos", "atan", "sinh", "cosh", "tanh", "asinh", "acosh", "atanh", "cbrt", "erf", "erfc", "tgamma", "lgamma", "sqrt" };
    for (const char* f : unary)
        r.push_back({ f, kNaN, 0, W_NAN, 0 });
    for (const char* f : { "atan2", "hypot" })
    {
        r.push_back({ f, kNaN, 1.5, W_NAN, 0 });
        r.push_back({ f, 1.5, kNaN, W_NAN, 0 });
    }
    r.push_back({ "pow", kNaN, 1.5, W_NAN, 0 });
    r.push_back({ "pow", 1.5, kNaN, W_NAN, 0 });
    // domain errors
    for (const char* f : { "log", "log2", "log10", "sqrt" })
        for (double x : { -1.0, -0.5, -MAX, -DEN, -kInf, -1e-30, -3.0 })
            if (!(std::string(f) == "sqrt" && x == 0))
                r.push_back({ f, x, 0, W_NAN, 0 });
    for (double x : { -1.0000001, -1.5, -2.0, -MAX, -kInf, -1e10 })
        r.push_back({ "log1p", x, 0, W_NAN, 0 });
    for (const char* f : { "asin", "acos", "atanh" })
        for (double x : { 1.0000001, -1.0000001, 2.0, -2.0, MAX, -MAX, kInf, -kInf, 1e10 })
            r.push_back({ f, (double)std::nextafter((T)1, (T)2) * (x > 0 ? 1 : -1) * (std::fabs(x) < 1.001 ? 1 : 0) + (std::fabs(x) < 1.001 ? 0 : x), 0, W_NAN, 0 });
    for (double x : { 0.9999999, 0.5, 0.0, -0.0, -1.0, -2.0, -4097.0, -1e10, -MAX, -kInf, DEN })
        r.push_back({ "acosh", x, 0, W_NAN, 0 });
    for (double b : { -1.0, -2.5, -0.5, -1e10, -MAX, -DEN })
        for (double e : { 0.5, -0.5, 1.5, 2.5, 0.1, -3.3, 1e-5 })
            r.push_back({ "pow", b, e, W_NAN, 0 });
    // poles and limits
    for (const char* f : { "log", "log2", "log10" })
    {
        r.push_back({ f, 0.0, 0, W_NINF, 0 });
        r.push_back({ f, -0.0, 0, W_NINF, 0 });
        r.push_back({ f, kInf, 0, W_PINF, 0 });
        r.push_back({ f, 1.0, 0, W_NUM, 0.0 });
    }
    r.push_back({ "log1p", -1.0, 0, W_NINF, 0 });
    r.push_back({ "log1p", kInf, 0, W_PINF, 0 });
    for (const char* f : { "exp", "exp2", "exp10" })
    {
        r.push_back({ f, -kInf, 0, W_NUM, 0.0 });
        r.push_back({ f, kInf, 0, W_PINF, 0 });
        r.push_back({ f, 0.0, 0, W_EXACT, 1.0 });
        r.push_back({ f, -0.0, 0, W_EXACT, 1.0 });
    }
    r.push_back({ "expm1", -kInf, 0, W_EXACT, -1.0 });
    r.push_back({ "expm1", kInf, 0, W_PINF, 0 });
    r.push_back({ "atan", kInf, 0, W_EXACT, (double)(T)1.57079632679489661923132169163975144L });
    r.push_back({ "atan", -kInf, 0, W_EXACT, -(double)(T)1.57079632679489661923132169163975144L });
    r.push_back({ "tanh", kInf, 0, W_EXACT, 1.0 });
    r.push_back({ "tanh", -kInf, 0, W_EXACT, -1.0 });
    r.push_back({ "erf", kInf, 0, W_EXACT, 1.0 });
    r.push_back({ "erf", -kInf, 0, W_EXACT, -1.0 });
    r.push_back({ "erfc", kInf, 0, W_NUM, 0.0 });
    r.push_back({ "erfc", -kInf, 0, W_EXACT, 2.0 });
    r.push_back({ "tgamma", 0.0, 0, W_PINF, 0 });
    r.push_back({ "tgamma", -0.0, 0, W_NINF, 0 });
    r.push_back({ "tgamma", kInf, 0, W_PINF, 0 });
    for (double k : { -1.0, -2.0, -3.0, -10.0, -33.0, -34.0, -40.0, -100.0, -171.0, -1000.0, -1e10, -MAX })
    {
        r.push_back({ "tgamma", k, 0, W_NAN, 0 });
        r.push_back({ "lgamma", k, 0, W_PINF, 0 });
    }
    r.push_back({ "lgamma", 0.0, 0, W_PINF, 0 });
    r.push_back({ "lgamma", kInf, 0, W_PINF, 0 });
    r.push_back({ "cbrt", kInf, 0, W_PINF, 0 });
    r.push_back({ "cbrt", -kInf, 0, W_NINF, 0 });
    r.push_back({ "sqrt", kInf, 0, W_PINF, 0 });
    r.push_back({ "sinh", kInf, 0, W_PINF, 0 });
    r.push_back({ "sinh", -kInf, 0, W_NINF, 0 });
    r.push_back({ "cosh", kInf, 0, W_PINF, 0 });
    r.push_back({ "cosh", -kInf, 0, W_PINF, 0 });
    r.push_back({ "asinh", kInf, 0, W_PINF, 0 });
    r.push_back({ "asinh", -kInf, 0, W_NINF, 0 });
    r.push_back({ "acosh", kInf, 0, W_PINF, 0 });
    r.push_back({ "acosh", 1.0, 0, W_NUM, 0.0 });
    r.push_back({ "atanh", 1.0, 0, W_PINF, 0 });
    r.push_back({ "atanh", -1.0, 0, W_NINF, 0 });
    for (const char* f : { "sin", "cos", "tan", "sincos_s", "sincos_c" })
    {
        r.push_back({ f, kInf, 0, W_NAN, 0 });
        r.push_back({ f, -kInf, 0, W_NAN, 0 });
    }
    // exact identities
    r.push_back({ "cos", 0.0, 0, W_EXACT, 1.0 });
    r.push_back({ "cos", -0.0, 0, W_EXACT, 1.0 });
    r.push_back({ "sincos_c", 0.0, 0, W_EXACT, 1.0 });
    r.push_back({ "cosh", 0.0, 0, W_EXACT, 1.0 });
    for (double x : { 1.0, -1.0, 2.5, -2.5, MAX, -MAX, DEN, -DEN, 1e-30, -1e30, 0.3 })
    {
        r.push_back({ "pow", x, 0.0, W_EXACT, 1.0 });
        r.push_back({ "pow", x, -0.0, W_EXACT, 1.0 });
    }
    for (const char* f : { "sin", "tan", "asin", "atan", "sinh", "tanh", "asinh", "atanh", "cbrt", "erf", "expm1", "log1p", "sincos_s" })
        r.push_back({ f, 0.0, 0, W_NUM, 0.0 });
    return r;
}

template <class T>
static bool c12_want_ok(const Row& w, T got)
{
    switch (w.want)
    {
    case W_NAN: return std::isnan(got);
    case W_PINF: return std::isinf(got) && got > 0;
    case W_NINF: return std::isinf(got) && got < 0;
    case W_EXACT: return model::bits(got) == model::bits((T)w.val);
    default: return got == (T)w.val;
    }
}
static const char* want_str(const Row& w)
{
    static char b[64];
    switch (w.want)
    {
    case W_NAN: return "NaN";
    case W_PINF: return "+inf";
    case W_NINF: return "-inf";
    default: snprintf(b, sizeof b, "%.17g", w.val); return b;
    }
}

// NaN encodings: index 0 is the default quiet NaN of the rows
template <class T>
static int c12_nan_patterns() { return 8; }
template <class T>
static T c12_nan(int k)
{
    static const uint32_t f32[] = { 0x7fc00000u, 0xffc00000u, 0x7f800001u, 0x7fbfffffu, 0x7fffffffu, 0xff800001u, 0x7fc00001u, 0xffffffffu };
    static const uint64_t f64[] = { 0x7ff8000000000000ull, 0xfff8000000000000ull, 0x7ff0000000000001ull, 0x7ff00000ffffffffull, 0xfff0000000000001ull, 0x7ff0000100000000ull, 0x7ff7ffffffffffffull, 0xffffffffffffffffull };
    T r;
    if (sizeof(T) == 4)
        memcpy(&r, &f32[k % 8], 4);
    else
        memcpy(&r, &f64[k % 8], 8);
    return r;
}

template <class T>
static void c12_table(Context& cx)
{
    auto rows = c12_rows<T>();
    static const T ordinary[] = { (T)0.3, (T)0.7, (T)1.25, (T)2, (T)0.5, (T)1.5, (T)0.9, (T)3 };
    size_t item = 0;
    for (auto& w : rows)
    {
        const Fn* f = mfn::find(w.fn);
        if (!cx.opt.only_ops.empty() && !cx.opt.only_ops.count(w.fn))
            continue;
        const bool binary = f && f->arity == 2;
        for (auto& tg : g_targets)
        {
            const xsv_entry* e = tg.find(w.fn, prec<T>::tn);
            if (!e)
                continue;
            if ((int)(item++ % (size_t)cx.opt.nworkers) != cx.opt.worker)
                continue;
            const int n = e->lanes;
            // layouts: broadcast of the special operand; the special at each lane among ordinary values
            for (int pos = -1; pos < n; ++pos)
            {
                T xs[64], ys[64], out[64];
                for (int l = 0; l < n; ++l)
                {
                    xs[l] = pos < 0 ? (T)w.x : ordinary[(l + (pos < 0 ? 0 : pos)) % 8];
                    ys[l] = pos < 0 ? (T)w.y : ordinary[(l * 3 + 1) % 8];
                }
                if (pos >= 0)
                {
                    xs[pos] = (T)w.x;
                    ys[pos] = (T)w.y;
                }
                // "a NaN argument yields NaN" holds for every NaN encoding: quiet and signalling, either sign, payload in the
                // high or only in the low bits (a guard that looks at part of the word misses some of them)
                const int npv = (std::isnan(w.x) || std::isnan(w.y)) ? c12_nan_patterns<T>() : 1;
                for (int pv = 0; pv < npv; ++pv)
                {
                if (pv > 0)
                    for (int l = 0; l < n; ++l)
                    {
                        if (std::isnan(w.x) && std::isnan(xs[l]))
                            xs[l] = c12_nan<T>(pv);
                        if (std::isnan(w.y) && std::isnan(ys[l]))
                            ys[l] = c12_nan<T>(pv);
                    }
                CallResult cr = call<T>(cx, tg, e, xs, binary ? ys : nullptr, out);
                cx.st.evaluations++;
                cx.st.lane_checks++;
                const int lane = pos < 0 ? 0 : pos;
                bool ok = !cr.overflowed && c12_want_ok<T>(w, out[lane]);
                if (pos < 0 && ok)
                    for (int l = 1; l < n; ++l)
                        ok = ok && c12_want_ok<T>(w, out[l]);
                if (!ok)
                {
                    std::string key = std::string(w.fn) + ":" + prec<T>::tn + ":" + tg.name;
                    Violation v = math_viol<T>(cx, w.fn, tg, n, xs, binary ? ys : nullptr, lane, want_str(w), cr.overflowed ? "(no return)" : lane_str(prec<T>::tid, &out[lane]),
                                               std::string("special-value rule violated: ") + w.fn + "(" + lane_str(prec<T>::tid, &xs[lane]) + (binary ? ", " + lane_str(prec<T>::tid, &ys[lane]) : "") + ") must be " + want_str(w) + (pos < 0 ? " [broadcast]" : " [special operand at lane " + std::to_string(pos) + " among ordinary values]"));
                    if (!cx.has_violation(key))
                        cx.add_violation(v);
                }
                } // NaN encodings
            }
        }
    }
    cx.st.distinct_extra += rows.size() * 2; // every table row is non-trivial by construction (broadcast + placed)
    cx.st.classes[std::string("table_rows_") + prec<T>::tn] = rows.size();
    if (cx.opt.worker == 0)
        cx.st.samples.push_back(std::string("{\"table_row\":\"") + rows[rows.size() / 2].fn + "(" + std::to_string(rows[rows.size() / 2].x) + ") -> " + want_str(rows[rows.size() / 2]) + "\"}");
}

// ---- relations: bit-for-bit, oracle-free
struct Rel
{
    const char* a; // function evaluated at x
    const char* b; // function evaluated at +-x
    int kind; // 0: a(x) == b(x) ; 1: a(-x) == -a(x) (odd) ; 2: a(-x) == a(x) (even)
};
static const Rel kRels[] = {
    { "sincos_s", "sin", 0 }, { "sincos_c", "cos", 0 }, { "fabs", "abs", 0 }, { "rint", "nearbyint", 0 },
    { "sin", "sin", 1 }, { "tan", "tan", 1 }, { "asin", "asin", 1 }, { "atan", "atan", 1 }, { "sinh", "sinh", 1 }, { "tanh", "tanh", 1 }, { "asinh", "asinh", 1 }, { "atanh", "atanh", 1 }, { "cbrt", "cbrt", 1 }, { "erf", "erf", 1 },
    { "cos", "cos", 2 }, { "cosh", "cosh", 2 },
};
template <class T>
static bool rel_holds(int kind, T fa, T fb)
{
    if (std::isnan(fa) || std::isnan(fb))
        return std::isnan(fa) && std::isnan(fb);
    if (kind == 1)
        return model::bits(fb) == model::bits((T)-fa);
    return model::bits(fa) == model::bits(fb);
}

template <class T>
static bool c12_rel_batch(Context& cx, const Rel& r, const Target& tg, const xsv_entry* ea, const xsv_entry* eb, const T* xs, const T* comp, int npos)
{
    // the two evaluations are made in separate batches: the second holds the (negated) lanes of the first, rotated.
    // Companions, when present, sit in both batches (negated alike), so both take the same any()/all() fast paths:
    // a different path may legitimately change last-place bits (C13) and would not be a symmetry defect.
    const int n = ea->lanes;
    T a[64], b[64], oa[64], ob[64];
    bool ok = true;
    for (int l = 0; l < n; ++l)
    {
        a[l] = (comp && (l & 1)) ? comp[l % 8] : xs[l];
        b[l] = r.kind == 0 ? a[l] : (T)-a[l];
    }
    T b2[64];
    int map[64];
    for (int l = 0; l < n; ++l)
    {
        int src = (l + npos) % n;
        map[l] = src;
        b2[l] = b[src];
    }
    CallResult ca = call<T>(cx, tg, ea, a, nullptr, oa);
    CallResult cb = call<T>(cx, tg, eb, b2, nullptr, ob);
    if (ca.overflowed || cb.overflowed)
        return true; // C14's business
    for (int l = 0; l < n; ++l)
    {
        if (map[l] < 0)
            continue;
        cx.st.lane_checks++;
        if (!rel_holds<T>(r.kind, oa[map[l]], ob[l]))
        {
            ok = false;
            std::string key = std::string(r.a) + ":" + prec<T>::tn + ":" + tg.name;
            if (!cx.has_violation(key))
            {
                static const char* kn[] = { "must be bit-identical", "odd symmetry f(-x) == -f(x) must hold bit for bit", "even symmetry f(-x) == f(x) must hold bit for bit" };
                Violation v = math_viol<T>(cx, r.a, tg, n, a, b2, map[l], lane_str(prec<T>::tid, &oa[map[l]]), lane_str(prec<T>::tid, &ob[l]),
                                           std::string(r.a) + "(x) vs " + r.b + (r.kind ? "(-x)" : "(x)") + ": " + kn[r.kind] + " (second evaluation in another batch, rotated by " + std::to_string(npos) + ", lane " + std::to_string(l) + ")");
                v.extra = ",\"relation\":" + jstr(std::string(r.a) + "|" + r.b + "|" + std::to_string(r.kind));
                cx.add_violation(v);
            }
        }
    }
    return ok;
}

template <class T>
static void c12_relations(Context& cx)
{
    const bool thorough = cx.opt.thorough();
    static const T comp[] = { (T)0.3, (T)2, (T)50, (T)3000, (T)1e9, (T)-0.7, (T)1e-3, (T)-40 };
    size_t item = 0;
    uint64_t nontriv = 0;
    for (auto& r : kRels)
    {
        if (!cx.opt.only_ops.empty() && !cx.opt.only_ops.count(r.a))
            continue;
        for (auto& tg : g_targets)
        {
            const xsv_entry* ea = tg.find(r.a, prec<T>::tn);
            const xsv_entry* eb = tg.find(r.b, prec<T>::tn);
            if (!ea || !eb)
                continue;
            if ((int)(item++ % (size_t)cx.opt.nworkers) != cx.opt.worker)
                continue;
            const int n = ea->lanes;
            T xs[64];
            {
                // special arguments first: the symmetry holds at the zeros (f(-0) = -f(+0) bit for bit), subnormals, the
                // largest finite value, infinities, and at the values where the kernels switch algorithm
                using L = std::numeric_limits<T>;
                static const T sp[] = { (T)0, L::denorm_min(), L::min(), (T)1e-30, (T)1e-5, (T)0.25, (T)0.5, (T)0.75, (T)1, (T)1.5, (T)2, (T)3, (T)8, (T)20, (T)50, (T)100, (T)1e5, (T)1e9, (T)1e18, L::max(), L::infinity(), L::quiet_NaN() };
                const int ns = (int)(sizeof sp / sizeof sp[0]);
                for (int b0 = 0; b0 < ns; ++b0)
                    for (int sg = 0; sg < 2; ++sg)
                    {
                        for (int l = 0; l < n; ++l)
                            xs[l] = (sg ? -1 : 1) * sp[(b0 + l) % ns];
                        cx.st.evaluations++;
                        ++nontriv;
                        c12_rel_batch<T>(cx, r, tg, ea, eb, xs, nullptr, b0 % n);
                        // the special value alone among ordinary companions
                        for (int l = 0; l < n; ++l)
                            xs[l] = l == b0 % n ? (sg ? -1 : 1) * sp[b0] : comp[l % 8];
                        c12_rel_batch<T>(cx, r, tg, ea, eb, xs, nullptr, (b0 + 1) % n);
                    }
            }
            if (sizeof(T) == 4)
            {
                const uint64_t stride = thorough ? 67 : 4099;
                const uint64_t phase = mix64(cx.opt.seed ^ hash_str(r.a)) % stride;
                uint64_t k = 0;
                for (uint64_t u = phase; u < (1ull << 32); u += stride * n, ++k)
                {
                    for (int l = 0; l < n; ++l)
                    {
                        uint32_t w = (uint32_t)(u + (uint64_t)l * stride);
                        memcpy(&xs[l], &w, 4);
                    }
                    cx.st.evaluations++;
                    ++nontriv;
                    c12_rel_batch<T>(cx, r, tg, ea, eb, xs, (k & 1) ? comp : nullptr, (int)(k % (uint64_t)n));
                }
            }
            else
            {
                rc::detail::TestParams params = rc::detail::configuration().testParams;
                params.seed = mix64(params.seed ^ hash_str(r.a, 8) ^ hash_str(tg.name));
                params.maxSuccess = (int)std::max<long>(1, cx.opt.budget);
                rc::detail::TestMetadata md;
                md.id = std::string("rel:") + r.a + ":" + tg.name;
                const Fn* f = mfn::find(r.a);
                rc::detail::checkTestable(
                    [&]() {
                        const int cls = *rc::gen::resize(100, rc::gen::inRange<int>(0, 6));
                        auto v = f ? *rc::gen::container<std::vector<double>>((size_t)n, rc::gen::resize(100, c11_arg(*f, cls)))
                                   : *rc::gen::container<std::vector<double>>((size_t)n, rc::gen::map(rc::gen::arbitrary<uint64_t>(), [](uint64_t b) { double d; uint64_t m = mix64(b); memcpy(&d, &m, 8); return d; }));
                        for (int l = 0; l < n; ++l)
                            xs[l] = (T)v[l];
                        const int np = *rc::gen::resize(100, rc::gen::inRange<int>(0, n));
                        const bool wc = *rc::gen::arbitrary<bool>();
                        cx.st.evaluations++;
                        cx.st.note_distinct(hash_bytes(xs, sizeof(T) * n, hash_str(r.a)));
                        RC_ASSERT(c12_rel_batch<T>(cx, r, tg, ea, eb, xs, wc ? comp : nullptr, np));
                    },
                    md, params);
            }
        }
        cx.write_out();
    }
    cx.st.distinct_extra += nontriv;
    cx.st.nontrivial_cases += nontriv;
}

// ---- domain sweeps: every argument outside the mathematical domain yields NaN
template <class T>
static void c12_domains(Context& cx)
{
    struct Dom
    {
        const char* fn;
        bool (*outside)(double);
    };
    static const Dom doms[] = {
        { "log", [](double x) { return x < 0; } }, { "log2", [](double x) { return x < 0; } }, { "log10", [](double x) { return x < 0; } }, { "sqrt", [](double x) { return x < 0; } },
        { "log1p", [](double x) { return x < -1; } }, { "asin", [](double x) { return std::fabs(x) > 1; } }, { "acos", [](double x) { return std::fabs(x) > 1; } },
        { "acosh", [](double x) { return x < 1; } }, { "atanh", [](double x) { return std::fabs(x) > 1; } },
    };
    const bool thorough = cx.opt.thorough();
    size_t item = 0;
    uint64_t nontriv = 0;
    for (auto& d : doms)
        for (auto& tg : g_targets)
        {
            if (!cx.opt.only_ops.empty() && !cx.opt.only_ops.count(d.fn))
                continue;
            const xsv_entry* e = tg.find(d.fn, prec<T>::tn);
            if (!e)
                continue;
            if ((int)(item++ % (size_t)cx.opt.nworkers) != cx.opt.worker)
                continue;
            const int n = e->lanes;
            T xs[64], out[64];
            const uint64_t stride = sizeof(T) == 4 ? (thorough ? 61 : 2053) : 1;
            const uint64_t count = sizeof(T) == 4 ? (1ull << 32) / stride : (thorough ? 20000000ull : 400000ull);
            const uint64_t phase = mix64(cx.opt.seed ^ hash_str(d.fn));
            for (uint64_t k = 0; k < count; k += n)
            {
                for (int l = 0; l < n; ++l)
                {
                    if (sizeof(T) == 4)
                    {
                        uint32_t w = (uint32_t)(phase % stride + (k + l) * stride);
                        memcpy(&xs[l], &w, 4);
                    }
                    else
                    {
                        uint64_t w = mix64(phase + k + l);
                        memcpy(&xs[l], &w, 8);
                    }
                }
                CallResult cr = call<T>(cx, tg, e, xs, nullptr, out);
                cx.st.evaluations++;
                if (cr.overflowed)
                    continue;
                for (int l = 0; l < n; ++l)
                {
                    if (std::isnan(xs[l]) || !d.outside((double)xs[l]))
                        continue;
                    cx.st.lane_checks++;
                    ++nontriv;
                    if (!std::isnan(out[l]))
                    {
                        std::string key = std::string(d.fn) + ":" + prec<T>::tn + ":" + tg.name;
                        if (!cx.has_violation(key))
                            cx.add_violation(math_viol<T>(cx, d.fn, tg, n, xs, nullptr, l, "NaN", lane_str(prec<T>::tid, &out[l]), std::string(d.fn) + " of an argument outside its mathematical domain must be NaN"));
                    }
                }
            }
        }
    // pow(negative base, non-integer exponent) = NaN
    for (auto& tg : g_targets)
    {
        if (!cx.opt.only_ops.empty() && !cx.opt.only_ops.count("pow"))
            continue;
        const xsv_entry* e = tg.find("pow", prec<T>::tn);
        if (!e)
            continue;
        if ((int)(item++ % (size_t)cx.opt.nworkers) != cx.opt.worker)
            continue;
        const int n = e->lanes;
        rc::detail::TestParams params = rc::detail::configuration().testParams;
        params.seed = mix64(params.seed ^ hash_str("powdom", sizeof(T)) ^ hash_str(tg.name));
        params.maxSuccess = (int)std::max<long>(1, cx.opt.budget * 4);
        rc::detail::TestMetadata md;
        md.id = "pow-domain:" + tg.name;
        rc::detail::checkTestable(
            [&]() {
                T xs[64], ys[64], out[64];
                auto bx = *rc::gen::container<std::vector<uint64_t>>((size_t)(2 * n), rc::gen::resize(100, rc::gen::arbitrary<uint64_t>()));
                for (int l = 0; l < n; ++l)
                {
                    uint64_t a = mix64(bx[l]), b = mix64(bx[n + l]);
                    int ex = (int)(a % 60) - 30;
                    double base = -std::ldexp(1.0 + (double)(a >> 12) / 4503599627370496.0, (a >> 8) % 3 ? ex : (int)(a % 200) - 100);
                    double frac = (double)((b >> 8) % 1023 + 1) / 1024.0; // never an integer
                    double expo = (double)((int)(b % 41) - 20) + frac;
                    xs[l] = (T)base;
                    ys[l] = (T)expo;
                    if ((T)expo == std::trunc((T)expo))
                        ys[l] = (T)0.5;
                }
                CallResult cr = call<T>(cx, tg, e, xs, ys, out);
                cx.st.evaluations++;
                cx.st.note_distinct(hash_bytes(xs, sizeof(T) * n, hash_bytes(ys, sizeof(T) * n)));
                bool ok = true;
                for (int l = 0; l < n && !cr.overflowed; ++l)
                {
                    cx.st.lane_checks++;
                    if (!std::isnan(out[l]))
                    {
                        ok = false;
                        cx.add_violation(math_viol<T>(cx, "pow", tg, n, xs, ys, l, "NaN", lane_str(prec<T>::tid, &out[l]), "pow of a negative base with a non-integer exponent must be NaN"));
                    }
                }
                RC_ASSERT(ok);
            },
            md, params);
    }
    cx.st.distinct_extra += nontriv;
    cx.st.nontrivial_cases += nontriv;
}

static void run_c12(Context& cx)
{
    c12_table<float>(cx);
    c12_table<double>(cx);
    cx.write_out();
    c12_domains<float>(cx);
    c12_domains<double>(cx);
    cx.write_out();
    c12_relations<float>(cx);
    c12_relations<double>(cx);
}

template <class T>
static bool c12_replay(Context& cx, const std::string& op, const Target& tg, const xsv_entry* e, const T* xs, const T* ys)
{
    // replays a table/domain row: the recorded batch is re-run and every lane is judged by the table rows that match it,
    // and by the domain rule; relation records are re-run through c12_rel_batch
    const int n = e->lanes;
    bool ok = true;
    for (auto& r : kRels)
        if (op == r.a)
        {
            const xsv_entry* eb = tg.find(r.b, prec<T>::tn);
            if (eb)
                for (int np = 0; np < n; ++np)
                    ok = c12_rel_batch<T>(cx, r, tg, e, eb, xs, nullptr, np) && ok;
        }
    const Fn* f = mfn::find(op);
    const bool binary = f && f->arity == 2;
    T out[64];
    CallResult cr = call<T>(cx, tg, e, xs, binary ? ys : nullptr, out);
    if (cr.overflowed)
        return ok;
    auto rows = c12_rows<T>();
    for (int l = 0; l < n; ++l)
        for (auto& w : rows)
            if (op == w.fn && model::same((T)w.x, xs[l]) && (!binary || model::same((T)w.y, ys[l])))
                if (!c12_want_ok<T>(w, out[l]))
                {
                    ok = false;
                    cx.add_violation(math_viol<T>(cx, op, tg, n, xs, binary ? ys : nullptr, l, want_str(w), lane_str(prec<T>::tid, &out[l]), "special-value rule violated"));
                }
    if (op == "pow")
        for (int l = 0; l < n; ++l)
            if (xs[l] < 0 && std::isfinite(ys[l]) && ys[l] != std::trunc(ys[l]) && !std::isnan(out[l]))
            {
                ok = false;
                cx.add_violation(math_viol<T>(cx, op, tg, n, xs, ys, l, "NaN", lane_str(prec<T>::tid, &out[l]), "pow of a negative base with a non-integer exponent must be NaN"));
            }
    struct D
    {
        const char* fn;
        double lo, hi; // domain [lo, hi]
    };
    static const D ds[] = { { "log", 0, HUGE_VAL }, { "log2", 0, HUGE_VAL }, { "log10", 0, HUGE_VAL }, { "sqrt", 0, HUGE_VAL }, { "log1p", -1, HUGE_VAL }, { "asin", -1, 1 }, { "acos", -1, 1 }, { "acosh", 1, HUGE_VAL }, { "atanh", -1, 1 } };
    for (auto& d : ds)
        if (op == d.fn)
            for (int l = 0; l < n; ++l)
                if (!std::isnan(xs[l]) && ((double)xs[l] < d.lo || (double)xs[l] > d.hi) && !std::isnan(out[l]))
                {
                    ok = false;
                    cx.add_violation(math_viol<T>(cx, op, tg, n, xs, nullptr, l, "NaN", lane_str(prec<T>::tid, &out[l]), "argument outside the domain must give NaN"));
                }
    return ok;
}
