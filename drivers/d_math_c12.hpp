// stub
static void run_c12(Context&) {}
template <class T> static bool c12_replay(Context&, const std::string&, const Target&, const xsv_entry*, const T*, const T*) { return true; }
