// Shared helpers of the elementary-function driver: calling a shim entry on a batch of values, judging one
// lane against the reference (accuracy inside the claimed range, graceful degradation outside), known classes.
#ifndef XSV_MATH_COMMON_HPP
#define XSV_MATH_COMMON_HPP
#include "fp_model.hpp"
#include "math_fn.hpp"
#include "xsv.hpp"

namespace xsv
{
    using mfn::Fn;
    using mfn::ld;

    template <class T>
    struct prec
    {
    };
    template <>
    struct prec<float>
    {
        static constexpr int p = 24;
        static constexpr const char* tn = "f32";
        static constexpr TypeId tid = F32;
    };
    template <>
    struct prec<double>
    {
        static constexpr int p = 53;
        static constexpr const char* tn = "f64";
        static constexpr TypeId tid = F64;
    };

    // tick control of a target (C14)
    static sigjmp_buf g_tick_jmp;
    static volatile sig_atomic_t g_tick_armed = 0;
    static void tick_overflow()
    {
        if (g_tick_armed)
        {
            g_tick_armed = 0;
            siglongjmp(g_tick_jmp, 1);
        }
    }
    constexpr long kLoopBound = 512;
    inline void arm_ticks(const Target& tg)
    {
        if (!tg.tick_ctl)
            return;
        long v = 4 * kLoopBound;
        tg.tick_ctl(2, &v);
        v = (long)(void*)&tick_overflow;
        tg.tick_ctl(3, &v);
    }

    struct CallResult
    {
        bool overflowed = false; // loop-tick limit hit, call abandoned
        long ticks = 0;
    };
    // call entry e on inputs a (and b), n lanes of T; out receives n lanes
    template <class T>
    inline CallResult call(Context& cx, const Target& tg, const xsv_entry* e, const T* a, const T* b, T* out, int64_t imm = 0)
    {
        alignas(64) unsigned char ia[64], ib[64], o[128];
        const int n = e->lanes;
        memcpy(ia, a, (size_t)n * sizeof(T));
        if (b)
            memcpy(ib, b, (size_t)n * sizeof(T));
        xsv_args ar;
        memset(&ar, 0, sizeof ar);
        ar.in[0] = ia;
        ar.in[1] = ib;
        ar.out[0] = o;
        ar.imm[0] = imm;
        CallResult r;
        long z = 0;
        if (tg.tick_ctl)
            tg.tick_ctl(0, &z);
        cx.current_valid = true;
        cx.current.kind = "math";
        cx.current.prop = cx.opt.prop;
        cx.current.op = e->op;
        cx.current.type = e->type;
        cx.current.target = tg.name;
        cx.current.in_hex = { hex(ia, (size_t)n * sizeof(T)), b ? hex(ib, (size_t)n * sizeof(T)) : std::string("-") };
        g_tick_armed = 1;
        if (sigsetjmp(g_tick_jmp, 1) == 0)
            e->fn(&ar);
        else
            r.overflowed = true;
        g_tick_armed = 0;
        cx.current_valid = false;
        cx.st.executions++;
        if (tg.tick_ctl)
            tg.tick_ctl(1, &r.ticks);
        if (!r.overflowed)
            memcpy(out, o, (size_t)n * sizeof(T));
        if (!fpenv_ok())
        {
            fesetround(FE_TONEAREST);
            _mm_setcsr(_mm_getcsr() & ~0x8040u);
            cx.st.cls("fpenv_changed_by_call");
        }
        return r;
    }

    template <class T>
    inline Violation math_viol(Context& cx, const std::string& op, const Target& tg, int n, const T* a, const T* b, int lane, const std::string& exp, const std::string& got, const std::string& why)
    {
        Violation v;
        v.kind = "math";
        v.prop = cx.opt.prop;
        v.op = op;
        v.type = prec<T>::tn;
        v.target = tg.name;
        v.lane = lane;
        v.in_hex = { hex(a, (size_t)n * sizeof(T)), b ? hex(b, (size_t)n * sizeof(T)) : std::string("-") };
        if (lane >= 0)
        {
            v.in_lane.push_back(lane_str(prec<T>::tid, &a[lane]));
            if (b)
                v.in_lane.push_back(lane_str(prec<T>::tid, &b[lane]));
        }
        v.expected = exp;
        v.got = got;
        v.why = why;
        return v;
    }

    // ---------------------------------------------------------------- open known-finding classes (see known_findings.json)
    // returns the class name if (f, x) lies in an open class AND the result respects that class's regression bound
    template <class T>
    inline const char* math_known(const Options& o, const Fn& f, ld x, ld y, T got, ld exact, double err)
    {
        const mfn::Kind n = mfn::kind_of(f);
        (void)y;
        if (sizeof(T) == 4)
        {
            if (n == mfn::K_LGAMMA && x < 0)
            {
                if (o.known.count("lgamma32_tiny_negative") && x > -0.03125L)
                {
                    // D16: z - 1 absorbs z; regression: finite for x <= -2^-24 and error <= 4 + 2^-3/|x| ulp
                    if ((x > -ldexpl(1, -24) || std::isfinite(got)) && (!std::isfinite(got) || err <= 4 + 0.125 / (double)fabsl(x)))
                        return "lgamma32_tiny_negative";
                }
                if (o.known.count("lgamma32_reflection_cancellation"))
                {
                    // D24: condition number of the reflection formula  -log(|x sin(pi x)|/pi) - lgamma(|x|)
                    ld ax = fabsl(x);
                    ld s = fabsl(sinl(3.14159265358979323846264338327950288L * (ax - floorl(ax))));
                    if (s > 0)
                    {
                        ld t1 = fabsl(lgammal(ax)), t2 = fabsl(logl(3.14159265358979323846264338327950288L / (ax * s)));
                        ld K = (t1 + t2) / (fabsl(exact) < 1 ? 1.0L : fabsl(exact));
                        if (K > 4.5 && std::isfinite(got) && err <= 2 + 1.5 * (double)K)
                            return "lgamma32_reflection_cancellation";
                    }
                }
            }
            if (n == mfn::K_TGAMMA && o.known.count("tgamma32_stirling_overflow") && x < -35.04L && x > -37 && fabsl(exact) < ldexpl(1, -120))
            {
                // D17: result 0 although the exact value is a small normal number; regression: 0 or within 256 ulp
                if (got == 0 || err <= 256)
                    return "tgamma32_stirling_overflow";
            }
        }
        else
        {
            if (n == mfn::K_TGAMMA && o.known.count("tgamma64_stirling_overflow") && x < -170.5L && fabsl(exact) < ldexpl(1, -900))
            {
                // D17 (double): stirling(|x|) overflows, the result is 0 although the exact value is a tiny normal number
                if (got == 0 || err <= 16.0 * (double)fabsl(x))
                    return "tgamma64_stirling_overflow";
            }
            if (n == mfn::K_TRIG && o.known.count("trig64_near_multiple_of_pio2") && fabsl(x) <= 63)
            {
                // D18: |x| <= 20 pi within 2^-49 |x| of a multiple of pi/2; regression: error <= 2^16 ulp
                const ld pio2 = 1.57079632679489661923132169163975144L;
                ld k = roundl(x / pio2);
                ld d = fabsl(x - k * pio2);
                if (d < ldexpl(fabsl(x), -49) + ldexpl(1, -60) && std::isfinite(got) && err <= 65536)
                    return "trig64_near_multiple_of_pio2";
            }
        }
        return nullptr;
    }

    // ---------------------------------------------------------------- lane verdict
    enum
    {
        V_OK,
        V_SKIP, // outside the property's domain for this check (non-finite, subnormal argument, domain error)
        V_FAIL
    };
    struct Verdict
    {
        int v = V_OK;
        double err = 0; // ulps (when in range)
        bool in_range = false;
        std::string why, exp;
        const char* known = nullptr;
    };

    template <class T>
    inline bool arg_claimed(T x)
    {
        return std::isfinite(x) && (x == 0 ? false : std::fabs(x) >= std::numeric_limits<T>::min());
    }

    // Per-value precomputation shared by all targets: a cheap screen in double arithmetic decides the clear
    // passes; everything else goes through judge_lane (long double / MPFR).
    struct Pre
    {
        double ref = 0, inv_ulp = 0, thresh = 0;
        uint8_t cls = 0; // 0: slow path or skip, 1: in claimed range, 2: underflow side, 3: overflow side
    };
    template <class T>
    inline Pre prepare_lane(const Fn& f, T x, T yy, ld ref)
    {
        using L = std::numeric_limits<T>;
        Pre p;
        if (!arg_claimed(x) || f.arity == 2 || std::isnan((double)ref))
            return p; // binary functions and special arguments take the slow path
        const ld lo = 4 * (ld)L::min(), hi = (ld)L::max() / 4;
        const ld aref = fabsl(ref);
        p.ref = (double)ref;
        if (std::isfinite((double)ref) && aref >= lo && aref <= hi)
        {
            ld mv = mfn::metric_value(f, ref);
            p.inv_ulp = (double)(1.0L / mfn::ulp_of(mv, prec<T>::p));
            p.thresh = 0.70 * mfn::bound_at<T>(f, x, yy, ref);
            p.cls = 1;
        }
        else if (ref == 0 || aref < lo)
            p.cls = 2;
        else
            p.cls = 3;
        return p;
    }
    // true: lane certainly acceptable (err receives the screened error for in-range lanes, -1 otherwise)
    template <class T>
    inline bool fast_ok(const Pre& p, T got, double& err)
    {
        using L = std::numeric_limits<T>;
        err = -1;
        switch (p.cls)
        {
        case 1:
            err = std::fabs((double)got - p.ref) * p.inv_ulp;
            return err <= p.thresh; // NaN compares false
        case 2:
            return std::fabs(got) <= 16 * L::min() && (got == 0 || p.ref == 0 || std::signbit(got) == std::signbit(p.ref));
        case 3:
            return (std::isinf(got) || std::fabs(got) >= L::max() / 16) && std::signbit(got) == std::signbit(p.ref);
        default:
            return false;
        }
    }

    // judge y = f(x[,yy]) against the fast reference `ref`; arb re-judges suspicious lanes
    template <class T>
    inline Verdict judge_lane(const Options& o, const Fn& f, T x, T yy, T got, ld ref, mfn::Arbiter& arb)
    {
        using L = std::numeric_limits<T>;
        Verdict v;
        const int p = prec<T>::p;
        const mfn::Kind n = mfn::kind_of(f);
        // arguments the property claims: finite, non-subnormal (zero is left to C12)
        if (!arg_claimed(x) || (f.arity == 2 && !std::isfinite(yy)))
        {
            v.v = V_SKIP;
            return v;
        }
        if (f.arity == 2)
        {
            if (yy != 0 && std::fabs(yy) < L::min())
            {
                v.v = V_SKIP;
                return v;
            }
            if (n == mfn::K_HYPOT)
            {
                ld m = std::max(fabsl((ld)x), fabsl((ld)yy));
                if (!(m * m >= 4 * (ld)L::min() && m * m <= (ld)L::max() / 4))
                {
                    v.v = V_SKIP;
                    return v;
                }
            }
            if (n == mfn::K_POW && yy == 0)
            {
                v.v = V_SKIP; // pow(x,0) = 1 belongs to C12
                return v;
            }
        }
        if (std::isnan((double)ref))
        {
            v.v = V_SKIP; // domain error: C12
            return v;
        }
        const ld lo = 4 * (ld)L::min(), hi = (ld)L::max() / 4;
        const ld aref = fabsl(ref);
        if (std::isfinite((double)ref) && aref >= lo && aref <= hi)
        {
            v.in_range = true;
            ld mv = mfn::metric_value(f, ref);
            ld u = mfn::ulp_of(mv, p);
            double bound = mfn::bound_at<T>(f, x, yy, ref);
            double err = std::isfinite(got) ? (double)(fabsl((ld)got - ref) / u) : HUGE_VAL;
            v.err = err;
            if (err > 0.75 * bound)
            {
                // inside an open known-finding class (judged with the fast reference): no need for the arbiter
                if (err > bound)
                    if (const char* k = math_known<T>(o, f, x, yy, got, ref, err))
                    {
                        v.known = k;
                        return v;
                    }
                // arbiter: exact value from MPFR
                ld exact = ref;
                double e2 = arb.err_ulps(f, (double)x, (double)yy, (double)got, p, &exact);
                if (e2 < 0)
                {
                    v.v = V_SKIP;
                    return v;
                }
                ld aex = fabsl(exact);
                if (!(aex >= lo && aex <= hi))
                {
                    v.in_range = false; // borderline: exact value just outside the claimed range
                    return v;
                }
                if (!std::isfinite(got))
                    e2 = HUGE_VAL;
                v.err = e2;
                bound = mfn::bound_at<T>(f, x, yy, exact);
                if (e2 > bound)
                {
                    v.known = math_known<T>(o, f, x, yy, got, exact, e2);
                    if (!v.known)
                    {
                        char b[200];
                        snprintf(b, sizeof b, "error %.3f ulp exceeds the bound %.3g ulp (exact value from MPFR: %.21Lg)", e2, bound, exact);
                        v.why = b;
                        T ex = (T)exact;
                        v.exp = lane_str(prec<T>::tid, &ex);
                        v.v = V_FAIL;
                    }
                }
            }
            return v;
        }
        // graceful degradation outside [4 MIN, MAX/4]
        const char* bad = nullptr;
        if (std::isnan(got))
            bad = "NaN although the exact result is a number";
        else if (ref == 0 || aref < lo)
        {
            if (!(std::fabs(got) <= 16 * L::min()))
                bad = "underflow side: |result| must be <= 16*MIN";
            else if (got != 0 && ref != 0 && std::signbit(got) != std::signbit((double)ref))
                bad = "underflow side: wrong sign";
        }
        else
        {
            if (!(std::isinf(got) || std::fabs(got) >= L::max() / 16))
                bad = "overflow side: result must be +-inf or >= MAX/16 in magnitude";
            else if (std::signbit(got) != std::signbit((double)ref))
                bad = "overflow side: wrong sign";
        }
        if (bad)
        {
            // confirm the classification of the exact value with MPFR before reporting
            ld exact = arb.eval(f, (double)x, (double)yy);
            ld aex = fabsl(exact);
            bool same_side = std::isnan((double)exact) ? false : ((ref == 0 || aref < lo) ? (aex < lo) : (aex > hi || std::isinf((double)exact)));
            if (same_side)
            {
                v.known = math_known<T>(o, f, x, yy, got, exact, HUGE_VAL);
                if (!v.known)
                {
                    v.v = V_FAIL;
                    v.why = std::string("graceful degradation violated: ") + bad;
                    char b[64];
                    snprintf(b, sizeof b, "%.12Lg", exact);
                    v.exp = b;
                }
            }
        }
        return v;
    }
}

// Arguments for which the large-argument reduction of sin/cos/tan is hardest: representable values extremely close to a
// multiple of pi/2, where the leading chunks of the reduced argument vanish and the reduction recomputes with more terms.
// double: the nearest double to k*pi/2 for k spread over [2^19, 2^27] (residual below 2^-26) and some larger k;
// float: for every scaling s the continued-fraction convergents q < 2^24 of frac(2^s * 2/pi) give x = q * 2^s, the floats
// nearest to a multiple of pi/2 in the whole format (MPFR, 512 bits).
template <class T>
inline std::vector<T> pio2_hard_cases()
{
    std::vector<T> v;
    mpfr_t pio2, a, fr, t, one;
    mpfr_inits2(512, pio2, a, fr, t, one, (mpfr_ptr)0);
    mpfr_const_pi(pio2, MPFR_RNDN);
    mpfr_div_2ui(pio2, pio2, 1, MPFR_RNDN);
    if (sizeof(T) == 8)
    {
        for (int i = 0; i < 160; ++i)
        {
            // k spread geometrically over [2^19, 2^27], then a few up to 2^50
            const double kk = std::floor(std::ldexp(1.0, 19) * std::pow(2.0, 8.0 * i / 128.0) * (i < 128 ? 1.0 : std::ldexp(1.0, (i - 127) * 0.7)) + 7 * i);
            mpfr_mul_d(t, pio2, kk, MPFR_RNDN);
            const double x = mpfr_get_d(t, MPFR_RNDN);
            v.push_back((T)x);
            v.push_back((T)-x);
        }
    }
    else
    {
        for (int sh = -4; sh <= 104; ++sh)
        {
            // alpha = 2^sh * 2/pi ; only its fractional part matters
            mpfr_ui_div(a, 1, pio2, MPFR_RNDN);
            if (sh >= 0)
                mpfr_mul_2ui(a, a, (unsigned long)sh, MPFR_RNDN);
            else
                mpfr_div_2ui(a, a, (unsigned long)-sh, MPFR_RNDN);
            mpfr_frac(fr, a, MPFR_RNDN);
            // continued fraction of fr: denominators q_i
            double qm1 = 0, q0 = 1; // q_{-1}, q_0 for the expansion [0; a1, a2, ...]
            mpfr_set_ui(one, 1, MPFR_RNDN);
            double qs[64];
            int nq = 0;
            for (int it = 0; it < 60 && !mpfr_zero_p(fr); ++it)
            {
                mpfr_div(t, one, fr, MPFR_RNDN);
                mpfr_floor(a, t);
                const double ai = mpfr_get_d(a, MPFR_RNDN);
                mpfr_sub(fr, t, a, MPFR_RNDN);
                const double q1 = ai * q0 + qm1;
                if (q1 >= 16777216.0)
                {
                    // the largest semiconvergent below 2^24 is a good approximation too
                    const double tt = std::floor((16777215.0 - qm1) / q0);
                    if (tt >= 1)
                        qs[nq++] = tt * q0 + qm1;
                    break;
                }
                qs[nq++] = q1;
                qm1 = q0;
                q0 = q1;
            }
            for (int i = std::max(0, nq - 4); i < nq; ++i)
            {
                const double x = std::ldexp(qs[i], sh);
                if (x > 1000.0 && x < 3.0e38)
                {
                    v.push_back((T)x);
                    v.push_back((T)-x);
                }
            }
        }
    }
    mpfr_clears(pio2, a, fr, t, one, (mpfr_ptr)0);
    return v;
}
#endif
