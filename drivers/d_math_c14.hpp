// C14: every operation terminates in bounded time: the number of iterations of the data-dependent loops
// (hook XSIMD_VERIF_LOOP_TICK) per public call is bounded by a constant independent of the argument.
static uint64_t g_c14_maxticks = 0;

template <class T>
static bool c14_call(Context& cx, const Target& tg, const xsv_entry* e, const T* xs, const T* ys, int64_t imm, const char* layout)
{
    T out[64];
    const bool binary = ys != nullptr;
    CallResult cr = call<T>(cx, tg, e, xs, binary ? ys : nullptr, out, imm);
    cx.st.lane_checks++;
    if ((uint64_t)cr.ticks > g_c14_maxticks)
        g_c14_maxticks = (uint64_t)cr.ticks;
    if (cr.overflowed || cr.ticks > kLoopBound)
    {
        std::string key = std::string(e->op) + ":" + e->type + ":" + tg.name;
        if (!cx.has_violation(key))
        {
            // reduce: which single lane, broadcast, still exceeds the bound?
            const int n = e->lanes;
            int lane = -1;
            T bx[64], by[64];
            for (int l = 0; l < n && lane < 0; ++l)
            {
                for (int i = 0; i < n; ++i)
                {
                    bx[i] = xs[l];
                    by[i] = binary ? ys[l] : (T)0;
                }
                CallResult c2 = call<T>(cx, tg, e, bx, binary ? by : nullptr, out, imm);
                if (c2.overflowed || c2.ticks > kLoopBound)
                    lane = l;
            }
            std::string why = cr.overflowed ? "a data-dependent loop ran more than " + std::to_string(4 * kLoopBound) + " iterations (call abandoned): the iteration count grows with the argument or never ends"
                                            : "data-dependent loops ran " + std::to_string(cr.ticks) + " iterations, above the constant bound " + std::to_string(kLoopBound);
            Violation v = lane >= 0 ? math_viol<T>(cx, e->op, tg, n, bx, binary ? by : nullptr, 0, "", "", why + " [" + layout + "; reduced to a broadcast of one argument]")
                                    : math_viol<T>(cx, e->op, tg, n, xs, binary ? ys : nullptr, -1, "", "", why + " [" + layout + "; only with these companions]");
            v.imm[0] = imm; // the integer exponent of pow(x, n): without it the replay would run another case
            cx.add_violation(v);
        }
        return false;
    }
    return true;
}

template <class T>
static std::vector<T> c14_extremes()
{
    using L = std::numeric_limits<T>;
    std::vector<T> v = { (T)0, -(T)0, L::denorm_min(), -L::denorm_min(), L::min(), -L::min(), L::max(), -L::max(), L::infinity(), -L::infinity(), L::quiet_NaN(), (T)1, (T)-1, (T)0.5, (T)2.5 };
    for (int e = L::min_exponent - L::digits; e < L::max_exponent; e += (sizeof(T) == 4 ? 1 : 3))
    {
        T p = std::ldexp((T)1, e);
        v.push_back(p);
        v.push_back(-p);
        v.push_back(std::nextafter(p, (T)0));
        v.push_back(-std::nextafter(p, L::infinity()));
    }
    for (int k = -45; k <= (sizeof(T) == 4 ? 38 : 308); k += (sizeof(T) == 4 ? 1 : 4))
    {
        v.push_back((T)std::pow(10.0, k));
        v.push_back((T)-std::pow(10.0, k));
    }
    for (int k = 1; k <= 200; ++k)
    {
        v.push_back((T)-k);
        v.push_back(std::nextafter((T)-k, (T)0));
        v.push_back(std::nextafter((T)-k, -L::infinity()));
        v.push_back((T)k + (T)0.5);
    }
    for (T h : pio2_hard_cases<T>())
        v.push_back(h);
    return v;
}

template <class T>
static void c14_type(Context& cx)
{
    const bool thorough = cx.opt.thorough();
    // every entry of the math shims for this type
    std::set<std::string> ops;
    for (auto& tg : g_targets)
        for (auto& kv : tg.ops)
            if (std::string(kv.second->type) == prec<T>::tn)
                ops.insert(kv.second->op);
    const std::vector<T> ext = c14_extremes<T>();
    static const T comp_raw[] = { (T)0.3, (T)2, (T)50, (T)3000, (T)1e9, (T)-0.7, (T)-40, (T)-33.5, (T)7, (T)-1e9, (T)14, (T)1.3 };
    size_t item = 0;
    uint64_t nontriv = 0;
    for (auto& op : ops)
    {
        if (!cx.opt.only_ops.empty() && !cx.opt.only_ops.count(op))
            continue;
        const Fn* f = mfn::find(op);
        const bool binary = op == "pow" || op == "atan2" || op == "hypot" || op == "fmod" || op == "remainder" || op == "fdim";
        const bool has_imm = op == "ipow";
        const bool loops = (f && (f->flags & mfn::LOOPS)) || op == "ipow" || op == "s_tgamma" || op == "s_lgamma";
        for (auto& tg : g_targets)
        {
            const xsv_entry* e = tg.find(op, prec<T>::tn);
            if (!e)
                continue;
            if ((int)(item++ % (size_t)cx.opt.nworkers) != cx.opt.worker)
                continue;
            cx.st.per_target[tg.name]++;
            const int n = e->lanes;
            T xs[64], ys[64];
            std::vector<int64_t> imms = { 0 };
            if (has_imm)
                imms = { 0, 1, -1, 2, 3, 7, 64, 1000, 65535, 0x7fffffff, -0x7fffffffLL - 1, -0x7fffffff, 0x55555555, 0x40000000 };
            for (int64_t imm : imms)
            {
                // (a) extremes: neighbour layout (consecutive extremes), then each extreme among companions
                for (size_t b = 0; b < ext.size(); b += n)
                {
                    for (int l = 0; l < n; ++l)
                    {
                        xs[l] = ext[(b + l) % ext.size()];
                        ys[l] = ext[(b * 7 + l * 3 + 1) % ext.size()];
                    }
                    cx.st.evaluations++;
                    ++nontriv;
                    c14_call<T>(cx, tg, e, xs, binary ? ys : nullptr, imm, "extreme values, neighbour layout");
                }
                for (size_t i = 0; i < ext.size(); i += (loops ? 1 : 3))
                {
                    for (int l = 0; l < n; ++l)
                    {
                        xs[l] = comp_raw[(i + l) % 12];
                        ys[l] = comp_raw[(i * 5 + l) % 12];
                    }
                    xs[i % n] = ext[i];
                    ys[(i + 1) % n] = ext[(i * 3) % ext.size()];
                    cx.st.evaluations++;
                    ++nontriv;
                    c14_call<T>(cx, tg, e, xs, binary ? ys : nullptr, imm, "extreme value among ordinary companions");
                }
            }
            // (b) float32: strided sweep of all bit patterns for the functions that contain loops (thorough: every 31st)
            if (sizeof(T) == 4 && !binary && !has_imm)
            {
                const uint64_t stride = thorough ? (loops ? 31 : 2039) : (loops ? 1021 : 65521);
                const uint64_t phase = mix64(cx.opt.seed ^ hash_str(op)) % stride;
                for (uint64_t u = phase; u < (1ull << 32); u += stride * n)
                {
                    for (int l = 0; l < n; ++l)
                    {
                        uint32_t w = (uint32_t)(u + (uint64_t)l * stride);
                        memcpy(&xs[l], &w, 4);
                    }
                    cx.st.evaluations++;
                    if (!c14_call<T>(cx, tg, e, xs, nullptr, 0, "float32 sweep"))
                        break;
                }
            }
            // (c) rapidcheck: arbitrary bit patterns in every lane (companions on both sides of every threshold)
            rc::detail::TestParams params = rc::detail::configuration().testParams;
            params.seed = mix64(params.seed ^ hash_str(op, sizeof(T)) ^ hash_str(tg.name));
            params.maxSuccess = (int)std::max<long>(1, cx.opt.budget);
            rc::detail::TestMetadata md;
            md.id = op + ":" + prec<T>::tn + ":" + tg.name;
            rc::detail::checkTestable(
                [&]() {
                    auto bits = *rc::gen::container<std::vector<uint64_t>>((size_t)(2 * n), rc::gen::resize(100, rc::gen::arbitrary<uint64_t>()));
                    const int mode = *rc::gen::resize(100, rc::gen::inRange<int>(0, 3));
                    for (int l = 0; l < n; ++l)
                    {
                        uint64_t a = mix64(bits[l]), b = mix64(bits[n + l]);
                        if (mode == 0)
                        {
                            memcpy(&xs[l], &a, sizeof(T));
                            memcpy(&ys[l], &b, sizeof(T));
                        }
                        else if (mode == 1)
                        {
                            xs[l] = (T)((double)(int64_t)(a % 2000001) / 1000.0 - 1000.0);
                            ys[l] = (T)((double)(int64_t)(b % 2001) - 1000.0);
                        }
                        else
                        {
                            xs[l] = ext[a % ext.size()];
                            ys[l] = ext[b % ext.size()];
                        }
                    }
                    const int64_t imm = has_imm ? (int64_t)(int32_t)(uint32_t)mix64(bits[0] ^ 99) : 0;
                    cx.st.evaluations++;
                    cx.st.note_distinct(hash_bytes(xs, sizeof(T) * n, hash_bytes(ys, sizeof(T) * n, hash_str(op))));
                    RC_ASSERT(c14_call<T>(cx, tg, e, xs, binary ? ys : nullptr, imm, "rapidcheck lanes"));
                },
                md, params);
        }
        cx.write_out();
    }
    cx.st.distinct_extra += nontriv;
    cx.st.nontrivial_cases += nontriv;
}

static void run_c14(Context& cx)
{
    c14_type<float>(cx);
    c14_type<double>(cx);
    cx.st.maxv("max_loop_iterations_observed_in_one_call (bound 512)", (double)g_c14_maxticks, "any function");
    cx.st.samples.push_back("{\"layout\":\"extreme value among ordinary companions\",\"example\":\"tgamma(batch{0.3,2,50,-1e9,...}) loop iterations <= 512\"}");
}

template <class T>
static bool c14_replay(Context& cx, const std::string&, const Target& tg, const xsv_entry* e, const T* xs, const T* ys)
{
    const std::string op = e->op;
    const bool binary = op == "pow" || op == "atan2" || op == "hypot" || op == "fmod" || op == "remainder" || op == "fdim";
    return c14_call<T>(cx, tg, e, xs, binary ? ys : nullptr, atoll(cx.opt.replay[3].c_str()), "replay");
}
