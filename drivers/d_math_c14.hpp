// stub
static void run_c14(Context&) {}
template <class T> static bool c14_replay(Context&, const std::string&, const Target&, const xsv_entry*, const T*, const T*) { return true; }
