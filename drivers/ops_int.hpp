// Integer operation table: C01 (arithmetic) and C07 (bitwise / shift / rotate) lane judges.
#ifndef XSV_OPS_INT_HPP
#define XSV_OPS_INT_HPP
#include "elem.hpp"
#include "int_model.hpp"

namespace xsv
{
    using model::i128;

    template <class F>
    inline OpDef& def_int(const char* name, const char* prop, int arity, F f)
    {
        OpDef& d = new_op(name, prop, "int", arity);
        d.judge[I8] = make_judge<int8_t, int8_t>(f);
        d.judge[U8] = make_judge<uint8_t, uint8_t>(f);
        d.judge[I16] = make_judge<int16_t, int16_t>(f);
        d.judge[U16] = make_judge<uint16_t, uint16_t>(f);
        d.judge[I32] = make_judge<int32_t, int32_t>(f);
        d.judge[U32] = make_judge<uint32_t, uint32_t>(f);
        d.judge[I64] = make_judge<int64_t, int64_t>(f);
        d.judge[U64] = make_judge<uint64_t, uint64_t>(f);
        return d;
    }
    template <class F>
    inline OpDef& def_int_m(const char* name, const char* prop, int arity, int mask_input, F f)
    {
        OpDef& d = new_op(name, prop, "int", arity);
        d.kind[mask_input] = K_MASK;
        d.judge[I8] = make_judge_m<int8_t, int8_t>(f, mask_input);
        d.judge[U8] = make_judge_m<uint8_t, uint8_t>(f, mask_input);
        d.judge[I16] = make_judge_m<int16_t, int16_t>(f, mask_input);
        d.judge[U16] = make_judge_m<uint16_t, uint16_t>(f, mask_input);
        d.judge[I32] = make_judge_m<int32_t, int32_t>(f, mask_input);
        d.judge[U32] = make_judge_m<uint32_t, uint32_t>(f, mask_input);
        d.judge[I64] = make_judge_m<int64_t, int64_t>(f, mask_input);
        d.judge[U64] = make_judge_m<uint64_t, uint64_t>(f, mask_input);
        return d;
    }

    template <class T>
    inline unsigned int_cls(T a)
    {
        using L = std::numeric_limits<T>;
        unsigned c = 0;
        if (std::is_signed<T>::value && a < 0)
            c |= CL_NEG;
        if (a == L::max() || (std::is_signed<T>::value && a == L::min()))
            c |= CL_EXTREME;
        return c;
    }
    // finish: expected = exact wrapped
    template <class T>
    inline int fin_wrap(i128 exact, T got, T& exp, unsigned& cls, unsigned opcls)
    {
        exp = model::wrap<T>(exact);
        cls |= opcls;
        if (model::overflows<T>(exact))
            cls |= CL_WRAP;
        return got == exp ? J_OK : J_FAIL;
    }


    inline void register_int_ops()
    {
        // -------- C01: modular arithmetic
        auto j_add = XSV_J { using T = XSV_T; return fin_wrap<T>((i128)a[0] + a[1], got, exp, cls, int_cls(a[0]) | int_cls(a[1])); };
        auto j_sub = XSV_J { using T = XSV_T; return fin_wrap<T>((i128)a[0] - a[1], got, exp, cls, int_cls(a[0]) | int_cls(a[1])); };
        auto j_mul = XSV_J { using T = XSV_T; return fin_wrap<T>((i128)a[0] * a[1], got, exp, cls, int_cls(a[0]) | int_cls(a[1])); };
        auto j_neg = XSV_J { using T = XSV_T; return fin_wrap<T>(-(i128)a[0], got, exp, cls, int_cls(a[0])); };
        auto j_pos = XSV_J { using T = XSV_T; return fin_wrap<T>((i128)a[0], got, exp, cls, int_cls(a[0])); };
        auto j_abs = XSV_J { using T = XSV_T; return fin_wrap<T>(a[0] < 0 ? -(i128)a[0] : (i128)a[0], got, exp, cls, int_cls(a[0])); };
        auto j_incr = XSV_J { using T = XSV_T; return fin_wrap<T>((i128)a[0] + 1, got, exp, cls, int_cls(a[0])); };
        auto j_decr = XSV_J { using T = XSV_T; return fin_wrap<T>((i128)a[0] - 1, got, exp, cls, int_cls(a[0])); };
        auto j_fma = XSV_J { using T = XSV_T; return fin_wrap<T>((i128)a[0] * a[1] + a[2], got, exp, cls, int_cls(a[0]) | int_cls(a[1]) | int_cls(a[2])); };
        auto j_fms = XSV_J { using T = XSV_T; return fin_wrap<T>((i128)a[0] * a[1] - a[2], got, exp, cls, int_cls(a[0]) | int_cls(a[1]) | int_cls(a[2])); };
        auto j_fnma = XSV_J { using T = XSV_T; return fin_wrap<T>(-((i128)a[0] * a[1]) + a[2], got, exp, cls, int_cls(a[0]) | int_cls(a[1]) | int_cls(a[2])); };
        auto j_fnms = XSV_J { using T = XSV_T; return fin_wrap<T>(-((i128)a[0] * a[1]) - a[2], got, exp, cls, int_cls(a[0]) | int_cls(a[1]) | int_cls(a[2])); };
        auto j_min = XSV_J { exp = a[0] < a[1] ? a[0] : a[1]; cls |= int_cls(a[0]) | int_cls(a[1]); return got == exp ? J_OK : J_FAIL; };
        auto j_max = XSV_J { exp = a[0] > a[1] ? a[0] : a[1]; cls |= int_cls(a[0]) | int_cls(a[1]); return got == exp ? J_OK : J_FAIL; };
        auto j_div = XSV_J {
            using T = XSV_T;
            if (a[1] == 0 || (std::is_signed<T>::value && a[0] == std::numeric_limits<T>::min() && a[1] == (T)-1))
                return J_SKIP;
            exp = (T)(a[0] / a[1]);
            cls |= int_cls(a[0]) | int_cls(a[1]);
            if ((i128)exp * a[1] != (i128)a[0])
                cls |= CL_INEXACT;
            return got == exp ? J_OK : J_FAIL;
        };
        auto j_mod = XSV_J {
            using T = XSV_T;
            if (a[1] == 0 || (std::is_signed<T>::value && a[0] == std::numeric_limits<T>::min() && a[1] == (T)-1))
                return J_SKIP;
            exp = (T)(a[0] % a[1]);
            cls |= int_cls(a[0]) | int_cls(a[1]);
            if (exp != 0)
                cls |= CL_INEXACT;
            return got == exp ? J_OK : J_FAIL;
        };
        auto j_sign = XSV_J { using T = XSV_T; exp = (T)(a[0] > 0 ? 1 : (a[0] < 0 ? -1 : 0)); cls |= int_cls(a[0]) | (a[0] == 0 ? CL_SPECIAL : 0); return got == exp ? J_OK : J_FAIL; };
        auto j_sadd = XSV_J {
            using T = XSV_T;
            i128 s = (i128)a[0] + a[1];
            exp = model::clamp<T>(s);
            cls |= int_cls(a[0]) | int_cls(a[1]);
            if (model::overflows<T>(s))
                cls |= CL_SAT;
            return got == exp ? J_OK : J_FAIL;
        };
        auto j_ssub = XSV_J {
            using T = XSV_T;
            i128 s = (i128)a[0] - a[1];
            exp = model::clamp<T>(s);
            cls |= int_cls(a[0]) | int_cls(a[1]);
            if (model::overflows<T>(s))
                cls |= CL_SAT;
            return got == exp ? J_OK : J_FAIL;
        };
        auto j_avg = XSV_J {
            using T = XSV_T;
            i128 s = (i128)a[0] + a[1];
            exp = (T)(std::is_signed<T>::value ? model::trunc_div2(s) : model::floor_div2(s));
            cls |= int_cls(a[0]) | int_cls(a[1]);
            if (s & 1)
                cls |= CL_TIE;
            if (model::overflows<T>(s))
                cls |= CL_WRAP;
            return got == exp ? J_OK : J_FAIL;
        };
        auto j_avgr = XSV_J {
            using T = XSV_T;
            i128 s = (i128)a[0] + a[1];
            if (s < 0)
                return J_SKIP; // property: avgr claimed only for a+b >= 0
            exp = (T)model::ceil_div2(s);
            cls |= int_cls(a[0]) | int_cls(a[1]);
            if (s & 1)
                cls |= CL_TIE;
            if (model::overflows<T>(s))
                cls |= CL_WRAP;
            return got == exp ? J_OK : J_FAIL;
        };
        def_int("add", "C01", 2, j_add);
        def_int("op_add", "C01", 2, j_add);
        def_int("op_add_assign", "C01", 2, j_add);
        def_int("sub", "C01", 2, j_sub);
        def_int("op_sub", "C01", 2, j_sub);
        def_int("op_sub_assign", "C01", 2, j_sub);
        def_int("mul", "C01", 2, j_mul);
        def_int("op_mul", "C01", 2, j_mul);
        def_int("op_mul_assign", "C01", 2, j_mul);
        def_int("div", "C01", 2, j_div).div_like = true;
        def_int("op_div", "C01", 2, j_div).div_like = true;
        def_int("mod", "C01", 2, j_mod).div_like = true;
        def_int("op_mod", "C01", 2, j_mod).div_like = true;
        def_int("min", "C01", 2, j_min);
        def_int("max", "C01", 2, j_max);
        def_int("fmin", "C01", 2, j_min);
        def_int("fmax", "C01", 2, j_max);
        def_int("sadd", "C01", 2, j_sadd);
        def_int("ssub", "C01", 2, j_ssub);
        def_int("avg", "C01", 2, j_avg);
        def_int("avgr", "C01", 2, j_avgr);
        def_int("neg", "C01", 1, j_neg);
        def_int("op_neg", "C01", 1, j_neg);
        def_int("op_pos", "C01", 1, j_pos);
        def_int("pos", "C01", 1, j_pos);
        def_int("abs", "C01", 1, j_abs);
        def_int("sign", "C01", 1, j_sign);
        def_int("incr", "C01", 1, j_incr);
        def_int("op_preinc", "C01", 1, j_incr);
        def_int("op_postinc", "C01", 1, j_incr);
        def_int("decr", "C01", 1, j_decr);
        def_int("op_predec", "C01", 1, j_decr);
        def_int("op_postdec", "C01", 1, j_decr);
        def_int("fma", "C01", 3, j_fma);
        def_int("fms", "C01", 3, j_fms);
        def_int("fnma", "C01", 3, j_fnma);
        def_int("fnms", "C01", 3, j_fnms);
        // masked increment / decrement: inputs x, (unused y), mask
        auto j_incr_if = [](auto* a, uint8_t m, int64_t, auto got, auto& exp, unsigned& cls) -> int {
            using T = XSV_T;
            i128 e = (i128)a[0] + (m ? 1 : 0);
            cls |= m ? CL_TRUE : CL_FALSE;
            return fin_wrap<T>(e, got, exp, cls, int_cls(a[0]));
        };
        auto j_decr_if = [](auto* a, uint8_t m, int64_t, auto got, auto& exp, unsigned& cls) -> int {
            using T = XSV_T;
            i128 e = (i128)a[0] - (m ? 1 : 0);
            cls |= m ? CL_TRUE : CL_FALSE;
            return fin_wrap<T>(e, got, exp, cls, int_cls(a[0]));
        };
        def_int_m("incr_if", "C01", 3, 2, j_incr_if);
        def_int_m("decr_if", "C01", 3, 2, j_decr_if);

        // -------- C07: bitwise
        auto bw_cls = [](auto x) -> unsigned { using T = decltype(x); return (x == (T)0 || x == (T)~(T)0) ? (unsigned)CL_EXTREME : (unsigned)CL_BOUNDARY; };
        auto j_and = [bw_cls](auto* a, int64_t, auto got, auto& exp, unsigned& cls) -> int { using T = XSV_T; exp = (T)(a[0] & a[1]); cls |= bw_cls(a[0]) | bw_cls(a[1]); return got == exp ? J_OK : J_FAIL; };
        auto j_or = [bw_cls](auto* a, int64_t, auto got, auto& exp, unsigned& cls) -> int { using T = XSV_T; exp = (T)(a[0] | a[1]); cls |= bw_cls(a[0]) | bw_cls(a[1]); return got == exp ? J_OK : J_FAIL; };
        auto j_xor = [bw_cls](auto* a, int64_t, auto got, auto& exp, unsigned& cls) -> int { using T = XSV_T; exp = (T)(a[0] ^ a[1]); cls |= bw_cls(a[0]) | bw_cls(a[1]); return got == exp ? J_OK : J_FAIL; };
        auto j_andnot = [bw_cls](auto* a, int64_t, auto got, auto& exp, unsigned& cls) -> int { using T = XSV_T; exp = (T)(a[0] & ~a[1]); cls |= bw_cls(a[0]) | bw_cls(a[1]); return got == exp ? J_OK : J_FAIL; };
        auto j_not = [bw_cls](auto* a, int64_t, auto got, auto& exp, unsigned& cls) -> int { using T = XSV_T; exp = (T)~a[0]; cls |= bw_cls(a[0]); return got == exp ? J_OK : J_FAIL; };
        for (const char* n : { "and", "op_and", "op_and_assign" })
            def_int(n, "C07", 2, j_and);
        for (const char* n : { "or", "op_or", "op_or_assign" })
            def_int(n, "C07", 2, j_or);
        for (const char* n : { "xor", "op_xor", "op_xor_assign" })
            def_int(n, "C07", 2, j_xor);
        def_int("andnot", "C07", 2, j_andnot);
        for (const char* n : { "not", "op_not" })
            def_int(n, "C07", 1, j_not);

        // -------- C07: shifts / rotates
        auto sh_cls = [](auto x, uint64_t n, bool right, bool rot) -> unsigned {
            using T = decltype(x);
            constexpr unsigned bits = sizeof(T) * 8;
            unsigned c = 0;
            if (n == 0 || n == 1 || n == bits - 1)
                c |= CL_EXTREME;
            if (std::is_signed<T>::value && x < 0 && (right || rot))
                c |= CL_NEG;
            if (rot)
            {
                if (model::rotl<T>(x, (unsigned)n) != x)
                    c |= CL_BOUNDARY;
            }
            else if (right ? (model::shl<T>(model::shr<T>(x, (unsigned)n), (unsigned)n) != x) : (model::shr<T>(model::shl<T>(x, (unsigned)n), (unsigned)n) != x))
                c |= CL_BOUNDARY; // non-zero bits shifted out
            return c;
        };
        // scalar count (imm)
        auto j_shl_s = [sh_cls](auto* a, int64_t imm, auto got, auto& exp, unsigned& cls) -> int { using T = XSV_T; exp = model::shl<T>(a[0], (unsigned)imm); cls |= sh_cls(a[0], imm, false, false); return got == exp ? J_OK : J_FAIL; };
        auto j_shr_s = [sh_cls](auto* a, int64_t imm, auto got, auto& exp, unsigned& cls) -> int { using T = XSV_T; exp = model::shr<T>(a[0], (unsigned)imm); cls |= sh_cls(a[0], imm, true, false); return got == exp ? J_OK : J_FAIL; };
        auto j_rotl_s = [sh_cls](auto* a, int64_t imm, auto got, auto& exp, unsigned& cls) -> int { using T = XSV_T; exp = model::rotl<T>(a[0], (unsigned)imm); cls |= sh_cls(a[0], imm, false, true); return got == exp ? J_OK : J_FAIL; };
        auto j_rotr_s = [sh_cls](auto* a, int64_t imm, auto got, auto& exp, unsigned& cls) -> int { using T = XSV_T; exp = model::rotr<T>(a[0], (unsigned)imm); cls |= sh_cls(a[0], imm, true, true); return got == exp ? J_OK : J_FAIL; };
        for (const char* n : { "shl_s", "op_shl_s", "op_shl_s_assign" })
            def_int(n, "C07", 1, j_shl_s).imm = IMM_COUNT;
        for (const char* n : { "shr_s", "op_shr_s", "op_shr_s_assign" })
            def_int(n, "C07", 1, j_shr_s).imm = IMM_COUNT;
        def_int("rotl_s", "C07", 1, j_rotl_s).imm = IMM_COUNT;
        def_int("rotr_s", "C07", 1, j_rotr_s).imm = IMM_COUNT;
        // per-lane count (second batch); counts outside [0,bits) are outside the property
        auto cnt_ok = [](auto x, auto n) -> bool { using T = decltype(x); return !(std::is_signed<T>::value && n < 0) && (uint64_t)n < sizeof(T) * 8; };
        auto j_shl_v = [sh_cls, cnt_ok](auto* a, int64_t, auto got, auto& exp, unsigned& cls) -> int { using T = XSV_T; if (!cnt_ok(a[0], a[1])) return J_SKIP; exp = model::shl<T>(a[0], (unsigned)a[1]); cls |= sh_cls(a[0], (uint64_t)a[1], false, false); return got == exp ? J_OK : J_FAIL; };
        auto j_shr_v = [sh_cls, cnt_ok](auto* a, int64_t, auto got, auto& exp, unsigned& cls) -> int { using T = XSV_T; if (!cnt_ok(a[0], a[1])) return J_SKIP; exp = model::shr<T>(a[0], (unsigned)a[1]); cls |= sh_cls(a[0], (uint64_t)a[1], true, false); return got == exp ? J_OK : J_FAIL; };
        auto j_rotl_v = [sh_cls, cnt_ok](auto* a, int64_t, auto got, auto& exp, unsigned& cls) -> int { using T = XSV_T; if (!cnt_ok(a[0], a[1])) return J_SKIP; exp = model::rotl<T>(a[0], (unsigned)a[1]); cls |= sh_cls(a[0], (uint64_t)a[1], false, true); return got == exp ? J_OK : J_FAIL; };
        auto j_rotr_v = [sh_cls, cnt_ok](auto* a, int64_t, auto got, auto& exp, unsigned& cls) -> int { using T = XSV_T; if (!cnt_ok(a[0], a[1])) return J_SKIP; exp = model::rotr<T>(a[0], (unsigned)a[1]); cls |= sh_cls(a[0], (uint64_t)a[1], true, true); return got == exp ? J_OK : J_FAIL; };
        for (const char* n : { "shl_v", "op_shl_v" })
            def_int(n, "C07", 2, j_shl_v).kind[1] = K_COUNT;
        for (const char* n : { "shr_v", "op_shr_v" })
            def_int(n, "C07", 2, j_shr_v).kind[1] = K_COUNT;
        def_int("rotl_v", "C07", 2, j_rotl_v).kind[1] = K_COUNT;
        def_int("rotr_v", "C07", 2, j_rotr_v).kind[1] = K_COUNT;
    }
}
#endif
