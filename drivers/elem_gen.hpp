// Value lattices, deterministic sweeps and rapidcheck generators for the element-wise engine (DESIGN 2.5).
#ifndef XSV_ELEM_GEN_HPP
#define XSV_ELEM_GEN_HPP
#include <rapidcheck.h>

#include "elem.hpp"
#include "fp_model.hpp"

namespace xsv
{
    extern void (*g_case_filter)(ElemCase&); // driver-provided: enforce hard preconditions on a generated case
    inline int tbits(TypeId t) { return kTypeBytes[t] * 8; }
    inline bool tsigned(TypeId t) { return t == I8 || t == I16 || t == I32 || t == I64; }
    inline bool tfloat(TypeId t) { return t == F32 || t == F64; }
    inline uint64_t tmask(TypeId t) { return kTypeBytes[t] == 8 ? ~0ull : ((1ull << tbits(t)) - 1); }

    // ---------------------------------------------------------------- integer lattice (bit patterns)
    inline std::vector<uint64_t> int_lattice(TypeId t)
    {
        const int b = tbits(t);
        const uint64_t m = tmask(t);
        std::set<uint64_t> s;
        auto add = [&](uint64_t v) { s.insert(v & m); };
        for (uint64_t v : std::vector<uint64_t> { 0, 1, 2, 3, 7, 100 })
        {
            add(v);
            add(0 - v);
        }
        uint64_t smax = m >> 1, smin = smax + 1;
        for (uint64_t v : std::vector<uint64_t> { smax, smax - 1, smin, smin + 1, m, m - 1, smax / 2, smax / 2 + 1, smin + smin / 2, smin / 2, (uint64_t)0x5555555555555555ull, (uint64_t)0xAAAAAAAAAAAAAAAAull })
            add(v);
        for (int k : { b / 2 - 1, b / 2, b - 2, b - 1 })
        {
            add(1ull << k);
            add((1ull << k) - 1);
            add((1ull << k) + 1);
            add(0 - (1ull << k));
        }
        return std::vector<uint64_t>(s.begin(), s.end());
    }
    inline std::vector<uint64_t> count_list(TypeId t)
    {
        std::vector<uint64_t> r;
        for (int i = 0; i < tbits(t); ++i)
            r.push_back(i);
        return r;
    }
    inline std::vector<uint64_t> full_list(TypeId t)
    {
        std::vector<uint64_t> r;
        uint64_t n = 1ull << tbits(t);
        r.reserve(n);
        for (uint64_t i = 0; i < n; ++i)
            r.push_back(i);
        return r;
    }

    std::vector<uint64_t> fp_lattice(TypeId t); // defined in ops_fp.hpp

    inline std::vector<uint64_t> lattice(TypeId t) { return tfloat(t) ? fp_lattice(t) : int_lattice(t); }

    inline void put_lane(unsigned char* base, int stride, int lane, uint64_t bits) { memcpy(base + (size_t)lane * stride, &bits, stride); }

    // group resolved targets by lane count
    inline std::map<int, Resolved> by_lanes(const Resolved& r)
    {
        std::map<int, Resolved> m;
        for (size_t i = 0; i < r.tg.size(); ++i)
        {
            m[r.e[i]->lanes].tg.push_back(r.tg[i]);
            m[r.e[i]->lanes].e.push_back(r.e[i]);
        }
        return m;
    }

    // Enumerate the cartesian product of `lists` (one per input) -- every `stride`-th tuple starting at
    // `phase` -- packed n tuples per batch, `rotations` passes so a tuple visits several lane positions.
    // imm values are looped outside.  Only slice `slice` of `nslices` of the tuple sequence is visited
    // (heavy sweeps are split over the worker processes).  Nothing is materialised.
    inline uint64_t sweep_product(Context& cx, const OpDef& d, TypeId t, const Resolved& r, const std::vector<std::vector<uint64_t>>& lists,
                                  uint64_t stride, uint64_t phase, int rotations, const std::vector<int64_t>& imms, int slice = 0, int nslices = 1)
    {
        uint64_t total = 1;
        for (auto& l : lists)
            total *= l.size();
        if (stride < 1)
            stride = 1;
        const uint64_t phase0 = stride > 1 ? phase % std::min(stride, total) : 0;
        const uint64_t count = (total - phase0 + stride - 1) / stride;
        const uint64_t jlo = count * (uint64_t)slice / (uint64_t)nslices, jhi = count * (uint64_t)(slice + 1) / (uint64_t)nslices;
        const uint64_t cnt = jhi - jlo;
        if (cnt == 0)
            return 0;
        auto groups = by_lanes(r);
        std::string gname = d.name + ":" + kTypeNames[t];
        for (auto& g : groups)
        {
            const int n = g.first;
            const int rot = std::max(1, std::min(n, rotations));
            for (int64_t imm : imms)
            {
                for (int p = 0; p < rot; ++p)
                {
                    const int shift = rot >= n ? p : p * (n / rot);
                    for (uint64_t base = 0; base < cnt; base += n)
                    {
                        ElemCase c;
                        c.op = &d;
                        c.type = t;
                        c.imm = imm;
                        for (int l = 0; l < n; ++l)
                        {
                            uint64_t ti = phase0 + (jlo + (base + (uint64_t)((l + shift) % n)) % cnt) * stride;
                            for (int i = d.arity - 1; i >= 0; --i)
                            {
                                const auto& L = lists[i];
                                put_lane(c.in[i], in_stride(d, i, t), l, L[ti % L.size()]);
                                ti /= L.size();
                            }
                        }
                        if (g_case_filter)
                            g_case_filter(c);
                        run_case(cx, c, g.second);
                        cx.st.per_group[gname]++;
                    }
                }
            }
        }
        return cnt;
    }

    // arithmetic progression of lane bit patterns: start, start+stride, ... (count values), unary ops
    inline void sweep_range(Context& cx, const OpDef& d, TypeId t, const Resolved& r, uint64_t start, uint64_t stride, uint64_t count, int slice = 0, int nslices = 1)
    {
        {
            const uint64_t lo = count * (uint64_t)slice / (uint64_t)nslices, hi = count * (uint64_t)(slice + 1) / (uint64_t)nslices;
            start += lo * stride;
            count = hi - lo;
            if (count == 0)
                return;
        }
        auto groups = by_lanes(r);
        std::string gname = d.name + ":" + kTypeNames[t];
        const int eb = kTypeBytes[t];
        for (auto& g : groups)
        {
            const int n = g.first;
            for (uint64_t base = 0; base < count; base += n)
            {
                ElemCase c;
                c.op = &d;
                c.type = t;
                for (int l = 0; l < n; ++l)
                {
                    uint64_t v = start + ((base + l) % count) * stride;
                    put_lane(c.in[0], eb, l, v);
                }
                if (g_case_filter)
                    g_case_filter(c);
                run_case(cx, c, g.second);
                cx.st.per_group[gname]++;
            }
        }
    }

    // dense list for unary floating ops: lattice neighbours, k/2 +- ulps, powers of two +- ulps
    template <class T>
    inline std::vector<uint64_t> fp_unary_list_t()
    {
        using U = typename model::fpt<T>::U;
        std::set<uint64_t> s;
        auto around = [&](T v, int w) {
            U u = model::bits(v);
            for (int k = -w; k <= w; ++k)
            {
                s.insert((uint64_t)(U)(u + (U)k));
                s.insert((uint64_t)(U)((u + (U)k) ^ model::fpt<T>::sign));
            }
        };
        for (uint64_t b : fp_lattice(type_id<T>::value))
            around(model::from_bits<T>((U)b), 3);
        for (int k = 0; k <= 260; ++k)
            around((T)k / 2, 2);
        for (int e = model::fpt<T>::emin - model::fpt<T>::mant; e <= model::fpt<T>::emax; ++e)
            around(std::ldexp((T)1, e), 2);
        for (int e : { 21, 22, 23, 24, 30, 31, 32, 51, 52, 53, 62, 63, 64 })
            for (int k = -6; k <= 6; ++k)
                around((T)(std::ldexp((T)1, e) + (T)k * (T)0.5), 1);
        return std::vector<uint64_t>(s.begin(), s.end());
    }
    inline std::vector<uint64_t> fp_unary_list(TypeId t) { return t == F32 ? fp_unary_list_t<float>() : fp_unary_list_t<double>(); }

    // Operations whose inputs are all masks: every combination of k masks of n lanes when k*n <= limit bits,
    // otherwise structured families (one-hot, all-but-one, runs, alternating with every phase).
    inline void sweep_masks(Context& cx, const OpDef& d, TypeId t, const Resolved& r, int limit_bits)
    {
        auto groups = by_lanes(r);
        const int k = d.arity;
        std::string gname = d.name + ":" + kTypeNames[t];
        for (auto& g : groups)
        {
            const int n = g.first;
            std::vector<std::vector<uint64_t>> masks(k);
            auto run = [&](const std::vector<uint64_t>& m) {
                ElemCase c;
                c.op = &d;
                c.type = t;
                for (int i = 0; i < k; ++i)
                    for (int l = 0; l < n; ++l)
                        c.in[i][l] = (m[i] >> l) & 1;
                run_case(cx, c, g.second);
                cx.st.per_group[gname]++;
            };
            if (k * n <= limit_bits)
            {
                const uint64_t total = 1ull << (k * n);
                for (uint64_t v = 0; v < total; ++v)
                {
                    std::vector<uint64_t> m(k);
                    for (int i = 0; i < k; ++i)
                        m[i] = (v >> (i * n)) & ((1ull << n) - 1);
                    run(m);
                }
                cx.st.cls("mask_spaces_enumerated_exhaustively");
            }
            else
            {
                std::vector<uint64_t> fam;
                const uint64_t full = n >= 64 ? ~0ull : ((1ull << n) - 1);
                fam.push_back(0);
                fam.push_back(full);
                for (int l = 0; l < n; ++l)
                {
                    fam.push_back(1ull << l);
                    fam.push_back(full & ~(1ull << l));
                    fam.push_back(full & ((l == 63 ? 0 : (~0ull << (l + 1))))); // run of ones above l
                    fam.push_back((1ull << l) - 1); // run of ones below l
                }
                for (int period : { 2, 3, 4, 8, 16 })
                    for (int ph = 0; ph < period; ++ph)
                    {
                        uint64_t m = 0;
                        for (int l = 0; l < n; ++l)
                            if ((l + ph) % period == 0)
                                m |= 1ull << l;
                        fam.push_back(m);
                        fam.push_back(full & ~m);
                    }
                if (k == 1)
                    for (uint64_t a : fam)
                        run({ a });
                else
                    for (size_t i = 0; i < fam.size(); ++i)
                        for (size_t j = 0; j < fam.size(); j += (fam.size() > 64 ? 3 : 1))
                            run({ fam[i], fam[(j + i) % fam.size()] });
                cx.st.cls("mask_spaces_structured_families");
            }
        }
    }

    inline std::vector<int64_t> imm_values(const OpDef& d, TypeId t)
    {
        std::vector<int64_t> r;
        if (d.imm == IMM_COUNT)
            for (int i = 0; i < tbits(t); ++i)
                r.push_back(i);
        else if (d.imm == IMM_EXP)
        {
            for (int64_t v : { 0, 1, 2, 3, 4, 5, 7, 8, 15, 16, 17, 31, 32, 33, 63, 64, 65, 100, 127, 128, 255, 1000, 1023, 1024, 65535, 1 << 20, 0x7fffffff, 0x7ffffffe, 0x55555555 })
            {
                r.push_back(v);
                if (tfloat(t) && v)
                    r.push_back(-v);
            }
            if (tfloat(t))
                r.push_back(-0x7fffffffLL - 1);
        }
        else
            r.push_back(0);
        return r;
    }

    // ---------------------------------------------------------------- rapidcheck generators
    constexpr int kNominalSize = 100;
    template <class G>
    auto sized(G g) { return rc::gen::resize(kNominalSize, std::move(g)); }

    // lane bit pattern of integer type t
    inline rc::Gen<uint64_t> gen_int_bits(TypeId t)
    {
        const uint64_t m = tmask(t);
        const uint64_t smax = m >> 1, smin = smax + 1;
        auto lat = int_lattice(t);
        return sized(rc::gen::weightedOneOf<uint64_t>({
            { 3, rc::gen::elementOf(lat) },
            { 2, rc::gen::map(rc::gen::inRange<int>(-16, 17), [m](int v) { return (uint64_t)(int64_t)v & m; }) },
            { 4, rc::gen::map(rc::gen::arbitrary<uint64_t>(), [m](uint64_t v) { return mix64(v) & m; }) },
            { 1, rc::gen::map(rc::gen::inRange<uint64_t>(0, 64), [=](uint64_t v) { return (smax - v) & m; }) },
            { 1, rc::gen::map(rc::gen::inRange<uint64_t>(0, 64), [=](uint64_t v) { return (smin + v) & m; }) },
            { 1, rc::gen::map(rc::gen::inRange<uint64_t>(0, 64), [=](uint64_t v) { return (m - v) & m; }) },
            // integers that do not fit a 24- / 53-bit significand, at and around the rounding decision: a significand M with
            // its top bit set, shifted left by s >= 1, plus {0, half - 1, half (exact tie), half + 1, 2^s - 1}; either sign.
            // (int -> float conversions round here; kernels that split the integer in two parts double-round exactly here.)
            { 2, rc::gen::map(rc::gen::tuple(rc::gen::arbitrary<uint64_t>(), rc::gen::inRange<int>(0, 5), rc::gen::inRange<int>(0, 64), rc::gen::arbitrary<bool>()), [=](std::tuple<uint64_t, int, int, bool> q) {
                  const int b = tbits(t);
                  const int P = (std::get<2>(q) & 1) && b > 25 ? 24 : (b > 54 ? 53 : (b > 25 ? 24 : b - 2));
                  const int smax_ = b - P; // s in [1, b - P]
                  if (smax_ < 1)
                      return mix64(std::get<0>(q)) & m;
                  const int sft = 1 + (std::get<2>(q) >> 1) % smax_;
                  uint64_t M = (mix64(std::get<0>(q)) & ((1ull << P) - 1)) | (1ull << (P - 1));
                  if (std::get<0>(q) % 5 == 0)
                      M = (1ull << P) - 1 - (std::get<0>(q) % 3); // all ones: rounding carries into the next binade
                  if (std::get<0>(q) % 7 == 0)
                      M = (1ull << (P - 1)) + (std::get<0>(q) % 3); // just above a power of two
                  const uint64_t half = 1ull << (sft - 1);
                  uint64_t low = 0;
                  switch (std::get<1>(q))
                  {
                  case 0: low = 0; break;
                  case 1: low = half - 1; break;
                  case 2: low = half; break;
                  case 3: low = (half + 1) & ((1ull << sft) - 1); break;
                  default: low = (1ull << sft) - 1; break;
                  }
                  uint64_t v = (sft + P >= 64 ? (M << (64 - P)) >> (64 - P - sft) : (M << sft)) | low;
                  if (std::get<3>(q))
                      v = 0 - v;
                  return v & m;
              }) },
        }));
    }
    std::vector<std::pair<int, rc::Gen<uint64_t>>> fp_gen_classes(TypeId t); // ops_fp.hpp
    rc::Gen<uint64_t> gen_fp_bits(TypeId t); // ops_fp.hpp
    inline rc::Gen<uint64_t> gen_bits(TypeId t) { return tfloat(t) ? gen_fp_bits(t) : gen_int_bits(t); }

    // second operand derived from the first ("near the other operand" classes)
    uint64_t fp_relate(TypeId t, uint64_t a, int how, uint64_t r); // ops_fp.hpp
    inline uint64_t relate(TypeId t, uint64_t a, int how, uint64_t r)
    {
        if (tfloat(t))
            return fp_relate(t, a, how, r);
        const uint64_t m = tmask(t);
        switch (how)
        {
        case 0: return a;
        case 1: return (a + 1) & m;
        case 2: return (a - 1) & m;
        case 3: return (0 - a) & m;
        case 4: return (~a) & m;
        case 5: return (a + (r % 5) - 2) & m;
        default: return (m >> 1) - a; // complements to MAX (saturation boundary)
        }
    }

    // one generated case for (op,type): nmax lanes per input
    inline ElemCase gen_case(const OpDef& d, TypeId t)
    {
        ElemCase c;
        c.op = &d;
        c.type = t;
        const int eb = kTypeBytes[t];
        const int nmax = 64 / eb;
        if (d.imm == IMM_COUNT)
            c.imm = *sized(rc::gen::weightedOneOf<int>({ { 3, rc::gen::inRange<int>(0, tbits(t)) }, { 1, rc::gen::element<int>(0, 1, tbits(t) - 1) } }));
        if (d.imm == IMM_EXP)
        {
            int64_t k = *sized(rc::gen::weightedOneOf<int64_t>({ { 4, rc::gen::inRange<int64_t>(0, 70) }, { 2, rc::gen::inRange<int64_t>(0, 2000) }, { 1, rc::gen::inRange<int64_t>(0, 0x7fffffffLL) } }));
            if (tfloat(t) && *rc::gen::arbitrary<bool>())
                k = -k;
            c.imm = k;
        }
        std::vector<uint64_t> first;
        for (int i = 0; i < d.arity; ++i)
        {
            const int s = in_stride(d, i, t);
            if (d.kind[i] == K_MASK)
            {
                auto m = *rc::gen::container<std::vector<bool>>((size_t)nmax, rc::gen::arbitrary<bool>());
                for (int l = 0; l < nmax; ++l)
                    c.in[i][l] = m[l] ? 1 : 0;
            }
            else if (d.kind[i] == K_IEXP)
            {
                const int emax = t == F32 ? 127 : 1023, emin = t == F32 ? -126 : -1022;
                auto v = *rc::gen::container<std::vector<int>>((size_t)nmax, sized(rc::gen::weightedOneOf<int>({ { 3, rc::gen::inRange<int>(emin, emax + 1) }, { 2, rc::gen::inRange<int>(-40, 41) }, { 1, rc::gen::elementOf(std::vector<int> { emin, emin + 1, emax - 1, emax, 0, 1, -1 }) },
                                                                                                                 // exponents whose power of two is not a normal number (the result often is)
                                                                                                                 { 1, rc::gen::elementOf(std::vector<int> { emin - 1, emin - 2, emin - 30, emax + 1, emax + 2, 2 * emax, -2 * emax, 2 * emax + 40, 100000, -100000, 0x7fffffff, -0x7fffffff }) },
                                                                                                                 { 1, rc::gen::inRange<int>(-2 * emax - 60, 2 * emax + 61) } })));
                // double: the exponent lane is 64 bits wide; now and then a value beyond 32 bits
                const int wide = t == F64 ? *sized(rc::gen::inRange<int>(0, 12)) : 0;
                for (int l = 0; l < nmax; ++l)
                {
                    int64_t ev = v[l];
                    if (wide == 1 && (l % 3) == 0)
                        ev = (int64_t)v[l] + ((l & 1) ? ((int64_t)1 << 32) : -((int64_t)1 << 32));
                    put_lane(c.in[i], s, l, (uint64_t)ev);
                }
            }
            else if (d.kind[i] == K_COUNT)
            {
                const int mode = *sized(rc::gen::inRange<int>(0, 4));
                auto v = *rc::gen::container<std::vector<int>>((size_t)nmax, sized(rc::gen::inRange<int>(0, tbits(t))));
                const int same = v[0];
                for (int l = 0; l < nmax; ++l)
                {
                    int k = v[l];
                    if (mode == 1)
                        k = same; // all equal
                    else if (mode == 2)
                        k = (l & 1) ? tbits(t) - 1 : 0; // 0 and bits-1 adjacent
                    put_lane(c.in[i], s, l, (uint64_t)k);
                }
            }
            else
            {
                auto v = *rc::gen::container<std::vector<uint64_t>>((size_t)nmax, gen_bits(t));
                if (i > 0 && !first.empty())
                {
                    // relate a fraction of the lanes to the first operand
                    const int how = *sized(rc::gen::inRange<int>(-6, 7)); // <0: independent
                    if (how >= 0)
                    {
                        auto pick = *rc::gen::container<std::vector<uint8_t>>((size_t)nmax, rc::gen::arbitrary<uint8_t>());
                        for (int l = 0; l < nmax; ++l)
                            if (pick[l] & 1)
                                v[l] = relate(t, first[l], how, pick[l] >> 1);
                    }
                }
                for (int l = 0; l < nmax; ++l)
                    put_lane(c.in[i], s, l, v[l]);
                if (i == 0)
                    first = v;
            }
        }
        return c;
    }

    // run rapidcheck on one (op,type) group.  The last failing (= shrunk) case stays recorded in cx.violations.
    inline bool rc_group(Context& cx, const OpDef& d, TypeId t, const Resolved& r, long cases)
    {
        rc::detail::TestParams params = rc::detail::configuration().testParams;
        params.seed = mix64(params.seed ^ hash_str(d.name, t));
        params.maxSuccess = (int)cases;
        rc::detail::TestMetadata md;
        md.id = d.name + ":" + kTypeNames[t];
        md.description = md.id;
        std::string gname = md.id;
        auto res = rc::detail::checkTestable(
            [&]() {
                ElemCase c = gen_case(d, t);
                if (g_case_filter)
                    g_case_filter(c);
                cx.st.per_group[gname]++;
                bool failed = run_case(cx, c, r);
                RC_ASSERT(!failed || cx.termination_only);
            },
            md, params);
        if (!res.template is<rc::detail::SuccessResult>())
        {
            std::ostringstream os;
            rc::detail::printResultMessage(res, os);
            std::string s = os.str();
            if (s.size() > 1500)
                s.resize(1500);
            cx.st.notes.push_back("rapidcheck " + gname + ": " + s);
            return false;
        }
        return true;
    }
}
#endif
