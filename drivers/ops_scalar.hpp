// C17-only operations: clip and pow with an integer exponent (scalar overload and batch form).
#ifndef XSV_OPS_SCALAR_HPP
#define XSV_OPS_SCALAR_HPP
#include "elem_gen.hpp"
#include "fp_model.hpp"
#include "int_model.hpp"

namespace xsv
{
    inline void register_scalar_ops()
    {
        // ---- clip(x, lo, hi), lo <= hi (the shim orders operands 1 and 2): min(hi, max(x, lo))
        {
            OpDef& d = new_op("clip", "C17", "scalar", 3);
            auto f = [](auto* a, int64_t, auto got, auto& exp, unsigned& cls) -> int {
                using T = XSV_T;
                T x = a[0], lo = a[1], hi = a[2];
                if (x != x || lo != lo || hi != hi)
                    return J_SKIP;
                if (hi < lo)
                    std::swap(lo, hi);
                exp = lo > x ? lo : (hi < x ? hi : x);
                cls |= (x < lo || x > hi) ? CL_SAT : 0;
                cls |= (x == lo || x == hi) ? CL_TIE : 0;
                return got == exp ? J_OK : J_FAIL; // numeric: either zero is accepted for +-0 ties
            };
            d.judge[I8] = make_judge<int8_t, int8_t>(f);
            d.judge[U8] = make_judge<uint8_t, uint8_t>(f);
            d.judge[I16] = make_judge<int16_t, int16_t>(f);
            d.judge[U16] = make_judge<uint16_t, uint16_t>(f);
            d.judge[I32] = make_judge<int32_t, int32_t>(f);
            d.judge[U32] = make_judge<uint32_t, uint32_t>(f);
            d.judge[I64] = make_judge<int64_t, int64_t>(f);
            d.judge[U64] = make_judge<uint64_t, uint64_t>(f);
            d.judge[F32] = make_judge<float, float>(f);
            d.judge[F64] = make_judge<double, double>(f);
        }
        // ---- pow(x, n), n integer.  Integer base: n >= 0, modular x^n.  Floating base: long double reference with a
        // (|n|+2)-ulp allowance (every squaring doubles the accumulated relative error, so square-and-multiply has a
        // forward error proportional to n) while the result and the largest intermediate power are in the normal range;
        // scalar overload and every batch target must agree bit for bit (agree flag).
        for (const char* fam : { "int", "fp" })
        {
            OpDef& d = new_op("ipow", "C17", fam, 1);
            d.imm = IMM_EXP;
            d.agree = true;
            if (std::string(fam) == "int")
            {
                auto f = [](auto* a, int64_t imm, auto got, auto& exp, unsigned& cls) -> int {
                    using T = XSV_T;
                    using U = typename std::make_unsigned<T>::type;
                    if (imm < 0)
                        return J_SKIP;
                    U r = 1, b = (U)a[0];
                    uint64_t n = (uint64_t)imm;
                    bool wrapped = false;
                    while (n)
                    {
                        if (n & 1)
                        {
                            if (b && r > (U)~(U)0 / b)
                                wrapped = true;
                            r = (U)(r * b);
                        }
                        n >>= 1;
                        if (n)
                        {
                            if (b > (U)(1ull << (sizeof(U) * 4)))
                                wrapped = true;
                            b = (U)(b * b);
                        }
                    }
                    exp = (T)r;
                    cls |= wrapped ? CL_WRAP : 0;
                    cls |= (std::is_signed<T>::value && a[0] < 0) ? CL_NEG : 0;
                    cls |= imm > 2 ? CL_BOUNDARY : 0;
                    return got == exp ? J_OK : J_FAIL;
                };
                d.judge[I8] = make_judge<int8_t, int8_t>(f);
                d.judge[U8] = make_judge<uint8_t, uint8_t>(f);
                d.judge[I16] = make_judge<int16_t, int16_t>(f);
                d.judge[U16] = make_judge<uint16_t, uint16_t>(f);
                d.judge[I32] = make_judge<int32_t, int32_t>(f);
                d.judge[U32] = make_judge<uint32_t, uint32_t>(f);
                d.judge[I64] = make_judge<int64_t, int64_t>(f);
                d.judge[U64] = make_judge<uint64_t, uint64_t>(f);
            }
            else
            {
                auto f = [](auto* a, int64_t imm, auto got, auto& exp, unsigned& cls) -> int {
                    using T = XSV_T;
                    using L = std::numeric_limits<T>;
                    T x = a[0];
                    if (!std::isfinite(x))
                        return J_SKIP;
                    long double ref = powl((long double)x, (long double)imm);
                    exp = (T)ref;
                    long double ar = fabsl(ref);
                    if (!(ar >= 4 * (long double)L::min() && ar <= (long double)L::max() / 4))
                        return J_SKIP; // outside the normal range: only the scalar/batch agreement is checked
                    // intermediate over/underflow of the squarings is possible although the result is normal: x^(2^k) for the top bit
                    int bl = 0;
                    for (uint64_t m = (uint64_t)(imm < 0 ? -imm : imm); m; m >>= 1)
                        ++bl;
                    long double top = powl(fabsl((long double)x), (long double)(1ull << (bl ? bl - 1 : 0)));
                    if (!(top >= 4 * (long double)L::min() && top <= (long double)L::max() / 4))
                        return J_SKIP;
                    int e2;
                    frexpl(ref, &e2);
                    long double ulp = ldexpl(1.0L, e2 - L::digits);
                    long double err = fabsl((long double)got - ref) / ulp;
                    cls |= imm < 0 ? CL_NEG : 0;
                    cls |= (imm > 2 || imm < -1) ? CL_INEXACT : 0;
                    cls |= model::is_special(x) ? CL_SPECIAL : 0;
                    return err <= (long double)(imm < 0 ? -imm : imm) + 2 ? J_OK : J_FAIL;
                };
                d.judge[F32] = make_judge<float, float>(f);
                d.judge[F64] = make_judge<double, double>(f);
            }
        }
    }
}
#endif
