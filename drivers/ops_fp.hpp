// stub (filled in later)
#ifndef XSV_OPS_FP_HPP
#define XSV_OPS_FP_HPP
#include "elem_gen.hpp"
namespace xsv {
inline std::vector<uint64_t> fp_lattice(TypeId) { return {0}; }
inline rc::Gen<uint64_t> gen_fp_bits(TypeId) { return rc::gen::just<uint64_t>(0); }
inline uint64_t fp_relate(TypeId, uint64_t a, int, uint64_t) { return a; }
inline void register_fp_ops() {}
}
#endif
