// Floating-point operation table: C02 (basic IEEE ops) and C08 (rounding) lane judges,
// floating lattice and rapidcheck value classes (DESIGN 2.5, 4/C02, 4/C08).
#ifndef XSV_OPS_FP_HPP
#define XSV_OPS_FP_HPP
#include "elem_gen.hpp"
#include "fp_model.hpp"

namespace xsv
{
    template <class T>
    inline uint64_t fb(T x)
    {
        return (uint64_t)model::bits(x);
    }

    template <class T>
    inline std::vector<uint64_t> fp_lattice_t()
    {
        using L = std::numeric_limits<T>;
        using U = typename model::fpt<T>::U;
        std::set<uint64_t> s;
        auto add = [&](T v) {
            s.insert(fb(v));
            s.insert(fb((T)-v));
        };
        const T eps = L::epsilon();
        for (T v : { (T)0, L::denorm_min(), (T)(L::min() / 2), L::min(), (T)(L::min() * (1 + eps)), (T)(eps / 2), (T)1, (T)(1 + eps), (T)(1 - eps / 2), (T)0.5,
                     std::nextafter((T)0.5, (T)0), (T)1.5, (T)2.5, (T)3, (T)0.1, (T)1e10, L::max(), std::nextafter(L::max(), (T)0), L::infinity(),
                     (T)8388608.0, (T)8388607.0, (T)8388609.0, (T)8388607.5, (T)4194304.5, (T)16777215.0, (T)16777216.0, (T)2147483648.0, (T)2147483904.0, (T)4294967296.0,
                     (T)4503599627370496.0, (T)4503599627370497.0, (T)4503599627370495.0, (T)9007199254740992.0, (T)4611686018427387904.0, (T)9223372036854775808.0,
                     (T)2147483647.0, (T)2147483520.0, (T)0.49999997, (T)127.5, (T)128.5, (T)-2147483649.0 })
            add(v);
        // quiet and signalling NaNs with payloads
        const U qn = model::bits(L::quiet_NaN());
        s.insert((uint64_t)qn);
        s.insert((uint64_t)(qn | model::fpt<T>::sign | 0x1234));
        s.insert((uint64_t)((qn & ~((U)1 << (model::fpt<T>::mant - 1))) | 1)); // signalling, payload in the lowest bit only
        s.insert((uint64_t)((qn & ~((U)1 << (model::fpt<T>::mant - 1))) | ((U)1 << (model::fpt<T>::mant - 2)))); // signalling, payload in the top bits only
        s.insert((uint64_t)(U) ~(U)0); // all ones
        return std::vector<uint64_t>(s.begin(), s.end());
    }
    inline std::vector<uint64_t> fp_lattice(TypeId t) { return t == F32 ? fp_lattice_t<float>() : fp_lattice_t<double>(); }

    // ---------------------------------------------------------------- value classes
    template <class T>
    inline uint64_t fp_from_parts(bool neg, int exp /*unbiased*/, uint64_t mant)
    {
        using U = typename model::fpt<T>::U;
        const int bias = model::fpt<T>::emax;
        U u = ((U)(exp + bias) << model::fpt<T>::mant) | (U)(mant & (((U)1 << model::fpt<T>::mant) - 1));
        if (neg)
            u |= model::fpt<T>::sign;
        return (uint64_t)u;
    }
    template <class T>
    inline rc::Gen<uint64_t> gen_fp_bits_t()
    {
        using U = typename model::fpt<T>::U;
        const int M = model::fpt<T>::mant;
        auto lat = fp_lattice_t<T>();
        auto mantg = rc::gen::map(rc::gen::arbitrary<uint64_t>(), [](uint64_t v) { return mix64(v); });
        return sized(rc::gen::weightedOneOf<uint64_t>({
            { 3, rc::gen::elementOf(lat) },
            // uniform bit patterns
            { 3, rc::gen::map(rc::gen::arbitrary<uint64_t>(), [](uint64_t v) { return mix64(v) & (uint64_t)(U)~(U)0; }) },
            // moderate magnitude: exponent uniform in [-30,30]
            { 4, rc::gen::map(rc::gen::tuple(rc::gen::arbitrary<bool>(), rc::gen::inRange<int>(-30, 31), mantg), [](std::tuple<bool, int, uint64_t> p) { return fp_from_parts<T>(std::get<0>(p), std::get<1>(p), std::get<2>(p)); }) },
            // integers and half-integers
            { 2, rc::gen::map(rc::gen::tuple(rc::gen::inRange<int64_t>(-70000, 70001), rc::gen::inRange<int>(0, 4)), [](std::tuple<int64_t, int> p) { return fb((T)((T)std::get<0>(p) + (T)0.25 * (T)std::get<1>(p))); }) },
            // near 2^M (integer spacing boundary) and 2^31 / 2^63
            { 2, rc::gen::map(rc::gen::tuple(rc::gen::element<int>(M - 1, M, M + 1, 31, 32, 63, 64, 30, 62), rc::gen::inRange<int>(-8, 9), rc::gen::arbitrary<bool>()), [](std::tuple<int, int, bool> p) {
                    T v = std::ldexp((T)1, std::get<0>(p));
                    int k = std::get<1>(p);
                    for (int i = 0; i < std::abs(k); ++i)
                        v = std::nextafter(v, k > 0 ? std::numeric_limits<T>::infinity() : (T)0);
                    return fb((T)(std::get<2>(p) ? -v : v)); }) },
            // subnormals and tiny normals
            { 1, rc::gen::map(rc::gen::tuple(rc::gen::arbitrary<bool>(), mantg), [](std::tuple<bool, uint64_t> p) { return (uint64_t)((U)(std::get<1>(p) & ((((U)1) << (model::fpt<T>::mant + 2)) - 1)) | (std::get<0>(p) ? model::fpt<T>::sign : (U)0)); }) },
            // huge (top 4 binades)
            { 1, rc::gen::map(rc::gen::tuple(rc::gen::arbitrary<bool>(), rc::gen::inRange<int>(model::fpt<T>::emax - 3, model::fpt<T>::emax + 1), mantg), [](std::tuple<bool, int, uint64_t> p) { return fp_from_parts<T>(std::get<0>(p), std::get<1>(p), std::get<2>(p)); }) },
        }));
    }
    inline rc::Gen<uint64_t> gen_fp_bits(TypeId t) { return t == F32 ? gen_fp_bits_t<float>() : gen_fp_bits_t<double>(); }

    template <class T>
    inline uint64_t fp_relate_t(uint64_t abits, int how, uint64_t r)
    {
        using U = typename model::fpt<T>::U;
        using L = std::numeric_limits<T>;
        T a = model::from_bits<T>((U)abits);
        switch (how)
        {
        case 0: return abits;
        case 1: return fb(std::nextafter(a, L::infinity()));
        case 2: return fb(std::nextafter(a, -L::infinity()));
        case 3: return fb((T)-a);
        case 4: return fb((T)(-a * (1 + (T)((int)(r % 7) - 3) * L::epsilon()))); // cancellation partner
        case 5: return fb((T)(L::max() / a)); // product near overflow threshold
        default: return fb((T)(L::min() / a)); // product near underflow threshold
        }
    }
    inline uint64_t fp_relate(TypeId t, uint64_t a, int how, uint64_t r) { return t == F32 ? fp_relate_t<float>(a, how, r) : fp_relate_t<double>(a, how, r); }

    // ---------------------------------------------------------------- judges
    template <class F>
    inline OpDef& def_fp(const char* name, const char* prop, int arity, F f)
    {
        OpDef& d = new_op(name, prop, "fp", arity);
        d.judge[F32] = make_judge<float, float>(f);
        d.judge[F64] = make_judge<double, double>(f);
        return d;
    }
    template <class F>
    inline OpDef& def_fp_bool(const char* name, const char* prop, int arity, F f)
    {
        OpDef& d = new_op(name, prop, "fp", arity);
        d.out = O_BOOL;
        d.judge[F32] = make_judge<float, uint8_t>(f);
        d.judge[F64] = make_judge<double, uint8_t>(f);
        return d;
    }
    template <class F>
    inline OpDef& def_fp_toint(const char* name, const char* prop, int arity, F f)
    {
        OpDef& d = new_op(name, prop, "fp", arity);
        d.out = O_OTHER;
        d.out_type[F32] = I32;
        d.out_type[F64] = I64;
        d.judge[F32] = make_judge<float, int32_t>(f);
        d.judge[F64] = make_judge<double, int64_t>(f);
        return d;
    }

    template <class T>
    inline unsigned fp_cls(T a)
    {
        return model::is_special(a) ? (unsigned)CL_SPECIAL : 0u;
    }
    template <class T>
    inline int fin_same(T got, T exp, unsigned& cls)
    {
        cls |= fp_cls(exp);
        return model::same(got, exp) ? J_OK : J_FAIL;
    }
    template <class T>
    inline int fin_bits(T got, T exp, unsigned& cls)
    {
        cls |= fp_cls(exp);
        return model::bits(got) == model::bits(exp) ? J_OK : J_FAIL;
    }
    template <class T>
    inline int fin_numeq(T got, T exp, unsigned& cls)
    {
        cls |= fp_cls(exp);
        return model::numeq(got, exp) ? J_OK : J_FAIL;
    }
    // fma family: bit-identical to the fused or to the unfused reference (signed zeros included)
    template <class T>
    inline int fin_fma(T got, T fusedv, T unfusedv, unsigned& cls)
    {
        cls |= fp_cls(fusedv);
        if (!model::same(fusedv, unfusedv))
            cls |= CL_FUSEDIFF;
        if (model::same(got, fusedv) || model::same(got, unfusedv))
            return J_OK;
        return J_FAIL;
    }

#define XSV_FT typename std::remove_reference<decltype(exp)>::type

    inline void register_fp_ops()
    {
        using namespace model;
        auto j_add = XSV_J { using T = XSV_T; exp = a[0] + a[1]; cls |= fp_cls(a[0]) | fp_cls(a[1]) | (add_inexact(a[0], a[1]) ? CL_INEXACT : 0); return fin_same<T>(got, exp, cls); };
        auto j_sub = XSV_J { using T = XSV_T; exp = a[0] - a[1]; cls |= fp_cls(a[0]) | fp_cls(a[1]) | (add_inexact(a[0], (T)-a[1]) ? CL_INEXACT : 0); return fin_same<T>(got, exp, cls); };
        auto j_mul = XSV_J { using T = XSV_T; exp = a[0] * a[1]; cls |= fp_cls(a[0]) | fp_cls(a[1]) | (mul_inexact(a[0], a[1]) ? CL_INEXACT : 0); return fin_same<T>(got, exp, cls); };
        auto j_div = XSV_J { using T = XSV_T; exp = a[0] / a[1]; cls |= fp_cls(a[0]) | fp_cls(a[1]) | (mul_inexact(exp, a[1]) || exp * a[1] != a[0] ? CL_INEXACT : 0); return fin_same<T>(got, exp, cls); };
        auto j_sqrt = XSV_J { using T = XSV_T; exp = std::sqrt(a[0]); cls |= fp_cls(a[0]) | (exp * exp != a[0] || mul_inexact(exp, exp) ? CL_INEXACT : 0); return fin_same<T>(got, exp, cls); };
        for (const char* n : { "add", "op_add", "op_add_assign" })
            def_fp(n, "C02", 2, j_add);
        for (const char* n : { "sub", "op_sub", "op_sub_assign" })
            def_fp(n, "C02", 2, j_sub);
        for (const char* n : { "mul", "op_mul", "op_mul_assign" })
            def_fp(n, "C02", 2, j_mul);
        for (const char* n : { "div", "op_div", "op_div_assign" })
            def_fp(n, "C02", 2, j_div);
        def_fp("sqrt", "C02", 1, j_sqrt);
        // sign / bit-pattern operations: bitwise comparison
        auto j_neg = XSV_J { using T = XSV_T; exp = from_bits<T>(bits(a[0]) ^ fpt<T>::sign); cls |= fp_cls(a[0]) | CL_NEG; return fin_bits<T>(got, exp, cls); };
        auto j_abs = XSV_J { using T = XSV_T; exp = from_bits<T>(bits(a[0]) & ~fpt<T>::sign); cls |= fp_cls(a[0]) | (std::signbit(a[0]) ? CL_NEG : 0); return fin_bits<T>(got, exp, cls); };
        auto j_copysign = XSV_J { using T = XSV_T; exp = from_bits<T>((bits(a[0]) & ~fpt<T>::sign) | (bits(a[1]) & fpt<T>::sign)); cls |= fp_cls(a[0]) | fp_cls(a[1]) | (std::signbit(a[0]) != std::signbit(a[1]) ? CL_NEG : 0); return fin_bits<T>(got, exp, cls); };
        auto j_bitofsign = XSV_J { using T = XSV_T; exp = from_bits<T>(bits(a[0]) & fpt<T>::sign); cls |= fp_cls(a[0]) | (std::signbit(a[0]) ? CL_NEG : 0); return fin_bits<T>(got, exp, cls); };
        auto j_and = XSV_J { using T = XSV_T; exp = from_bits<T>(bits(a[0]) & bits(a[1])); cls |= CL_BOUNDARY; return fin_bits<T>(got, exp, cls); };
        auto j_or = XSV_J { using T = XSV_T; exp = from_bits<T>(bits(a[0]) | bits(a[1])); cls |= CL_BOUNDARY; return fin_bits<T>(got, exp, cls); };
        auto j_xor = XSV_J { using T = XSV_T; exp = from_bits<T>(bits(a[0]) ^ bits(a[1])); cls |= CL_BOUNDARY; return fin_bits<T>(got, exp, cls); };
        auto j_andnot = XSV_J { using T = XSV_T; exp = from_bits<T>(bits(a[0]) & ~bits(a[1])); cls |= CL_BOUNDARY; return fin_bits<T>(got, exp, cls); };
        auto j_not = XSV_J { using T = XSV_T; exp = from_bits<T>(~bits(a[0])); cls |= CL_BOUNDARY; return fin_bits<T>(got, exp, cls); };
        auto j_posf = XSV_J { using T = XSV_T; exp = a[0]; cls |= fp_cls(a[0]); return fin_bits<T>(got, exp, cls); };
        for (const char* n : { "pos", "op_pos" })
            def_fp(n, "C02", 1, j_posf);
        for (const char* n : { "neg", "op_neg" })
            def_fp(n, "C02", 1, j_neg);
        for (const char* n : { "abs", "fabs" })
            def_fp(n, "C02", 1, j_abs);
        def_fp("copysign", "C02", 2, j_copysign);
        def_fp("bitofsign", "C02", 1, j_bitofsign);
        for (const char* n : { "and", "op_and" })
            def_fp(n, "C02", 2, j_and);
        for (const char* n : { "or", "op_or" })
            def_fp(n, "C02", 2, j_or);
        for (const char* n : { "xor", "op_xor" })
            def_fp(n, "C02", 2, j_xor);
        def_fp("andnot", "C02", 2, j_andnot);
        for (const char* n : { "not", "op_not" })
            def_fp(n, "C02", 1, j_not);
        // fma family
        auto j_fma = XSV_J { using T = XSV_T; exp = fused(a[0], a[1], a[2]); cls |= fp_cls(a[0]) | fp_cls(a[1]) | fp_cls(a[2]); return fin_fma<T>(got, exp, mul_add_unfused(a[0], a[1], a[2]), cls); };
        auto j_fms = XSV_J { using T = XSV_T; exp = fused(a[0], a[1], (T)-a[2]); cls |= fp_cls(a[0]) | fp_cls(a[1]) | fp_cls(a[2]); return fin_fma<T>(got, exp, mul_add_unfused(a[0], a[1], (T)-a[2]), cls); };
        auto j_fnma = XSV_J { using T = XSV_T; exp = fused((T)-a[0], a[1], a[2]); cls |= fp_cls(a[0]) | fp_cls(a[1]) | fp_cls(a[2]); return fin_fma<T>(got, exp, mul_add_unfused((T)-a[0], a[1], a[2]), cls); };
        auto j_fnms = XSV_J { using T = XSV_T; exp = fused((T)-a[0], a[1], (T)-a[2]); cls |= fp_cls(a[0]) | fp_cls(a[1]) | fp_cls(a[2]); return fin_fma<T>(got, exp, mul_add_unfused((T)-a[0], a[1], (T)-a[2]), cls); };
        def_fp("fma", "C02", 3, j_fma);
        def_fp("fms", "C02", 3, j_fms);
        def_fp("fnma", "C02", 3, j_fnma);
        def_fp("fnms", "C02", 3, j_fnms);
        // min / max: claimed when neither operand is NaN; result compares equal to the smaller/larger operand
        auto j_min = XSV_J { using T = XSV_T; if (std::isnan(a[0]) || std::isnan(a[1])) return J_SKIP; exp = a[1] < a[0] ? a[1] : a[0]; cls |= fp_cls(a[0]) | fp_cls(a[1]) | (a[0] == a[1] ? CL_TIE : 0); return (got == exp && !std::isnan(got)) ? J_OK : J_FAIL; };
        auto j_max = XSV_J { using T = XSV_T; if (std::isnan(a[0]) || std::isnan(a[1])) return J_SKIP; exp = a[1] > a[0] ? a[1] : a[0]; cls |= fp_cls(a[0]) | fp_cls(a[1]) | (a[0] == a[1] ? CL_TIE : 0); return (got == exp && !std::isnan(got)) ? J_OK : J_FAIL; };
        def_fp("min", "C02", 2, j_min);
        def_fp("max", "C02", 2, j_max);
        def_fp("fmin", "C02", 2, j_min);
        def_fp("fmax", "C02", 2, j_max);
        // predicates
        auto pred = [](bool e, uint8_t got, uint8_t& exp, unsigned& cls) -> int { exp = e ? 1 : 0; cls |= e ? CL_TRUE : CL_FALSE; return got == exp ? J_OK : J_FAIL; };
        auto j_isnan = [pred](auto* a, int64_t, uint8_t got, uint8_t& exp, unsigned& cls) -> int { cls |= fp_cls(a[0]); return pred(std::isnan(a[0]), got, exp, cls); };
        auto j_isinf = [pred](auto* a, int64_t, uint8_t got, uint8_t& exp, unsigned& cls) -> int { cls |= fp_cls(a[0]); return pred(std::isinf(a[0]), got, exp, cls); };
        auto j_isfinite = [pred](auto* a, int64_t, uint8_t got, uint8_t& exp, unsigned& cls) -> int { cls |= fp_cls(a[0]); return pred(std::isfinite(a[0]), got, exp, cls); };
        auto j_isflint = [pred](auto* a, int64_t, uint8_t got, uint8_t& exp, unsigned& cls) -> int { cls |= fp_cls(a[0]); return pred(std::isfinite(a[0]) && std::trunc(a[0]) == a[0], got, exp, cls); };
        auto j_iseven = [pred](auto* a, int64_t, uint8_t got, uint8_t& exp, unsigned& cls) -> int {
            using T = typename std::remove_cv<typename std::remove_reference<decltype(a[0])>::type>::type;
            cls |= fp_cls(a[0]);
            bool fl = std::isfinite(a[0]) && std::trunc(a[0]) == a[0];
            T h = a[0] / 2; // exact unless a is the smallest subnormal (then a is not integral anyway)
            return pred(fl && std::trunc(h) == h && h * 2 == a[0], got, exp, cls);
        };
        auto j_isodd = [pred](auto* a, int64_t, uint8_t got, uint8_t& exp, unsigned& cls) -> int {
            using T = typename std::remove_cv<typename std::remove_reference<decltype(a[0])>::type>::type;
            cls |= fp_cls(a[0]);
            bool fl = std::isfinite(a[0]) && std::trunc(a[0]) == a[0];
            T h = a[0] / 2;
            bool even = fl && std::trunc(h) == h && h * 2 == a[0];
            return pred(fl && !even, got, exp, cls);
        };
        def_fp_bool("isnan", "C02", 1, j_isnan);
        def_fp_bool("isinf", "C02", 1, j_isinf);
        def_fp_bool("isfinite", "C02", 1, j_isfinite);
        def_fp_bool("is_flint", "C02", 1, j_isflint);
        def_fp_bool("is_even", "C02", 1, j_iseven);
        def_fp_bool("is_odd", "C02", 1, j_isodd);
        // sign / signnz
        auto j_sign = XSV_J { using T = XSV_T; cls |= fp_cls(a[0]); if (std::isnan(a[0])) { exp = a[0]; return std::isnan(got) ? J_OK : J_FAIL; } exp = (T)(a[0] > 0 ? 1 : (a[0] < 0 ? -1 : 0)); return (got == exp) ? J_OK : J_FAIL; };
        auto j_signnz = XSV_J { using T = XSV_T; if (std::isnan(a[0]) || a[0] == 0) return J_SKIP; cls |= fp_cls(a[0]) | (std::signbit(a[0]) ? CL_NEG : 0); exp = std::signbit(a[0]) ? (T)-1 : (T)1; return fin_bits<T>(got, exp, cls); };
        def_fp("sign", "C02", 1, j_sign);
        def_fp("signnz", "C02", 1, j_signnz);
        // frexp (mantissa for every input, exponent for finite inputs), ldexp, nextafter
        auto j_frexp_m = XSV_J { using T = XSV_T; int e; exp = std::frexp(a[0], &e); /* infinities and NaN come back unchanged (C: frexp(+-inf) = +-inf, frexp(NaN) = NaN); only their exponent is unspecified */ if (std::isnan(a[0])) { cls |= fp_cls(a[0]); return std::isnan(got) ? J_OK : J_FAIL; } cls |= fp_cls(a[0]) | CL_BOUNDARY; return fin_bits<T>(got, exp, cls); };
        auto j_frexp_e = [](auto* a, int64_t, auto got, auto& exp, unsigned& cls) -> int { if (!std::isfinite(a[0])) return J_SKIP; int e; (void)std::frexp(a[0], &e); exp = e; cls |= fp_cls(a[0]) | CL_BOUNDARY; return got == exp ? J_OK : J_FAIL; };
        def_fp("frexp_m", "C02", 1, j_frexp_m);
        def_fp_toint("frexp_e", "C02", 1, j_frexp_e);
        {
            OpDef& d = new_op("ldexp", "C02", "fp", 2);
            d.kind[1] = K_IEXP;
            d.judge[F32] = [](const void* const* in, int64_t, const void* got, void* exp, unsigned* cls, std::string*) -> int {
                float x, g;
                int32_t e;
                memcpy(&x, in[0], 4);
                memcpy(&e, in[1], 4);
                memcpy(&g, got, 4);
                // every exponent is judged: x * 2^e correctly rounded once (beyond +-100000 the result is saturated already)
                const bool inr = !(e < fpt<float>::emin || e > fpt<float>::emax);
                float r = std::ldexp(x, std::max<int32_t>(-100000, std::min<int32_t>(100000, e)));
                memcpy(exp, &r, 4);
                *cls |= fp_cls(x) | fp_cls(r) | ((e == fpt<float>::emin || e == fpt<float>::emax || !inr) ? CL_EXTREME : 0) | (inr && std::ldexp(r, -e) != x ? CL_INEXACT : 0);
                return same(g, r) ? J_OK : J_FAIL;
            };
            d.judge[F64] = [](const void* const* in, int64_t, const void* got, void* exp, unsigned* cls, std::string*) -> int {
                double x, g;
                int64_t e;
                memcpy(&x, in[0], 8);
                memcpy(&e, in[1], 8);
                memcpy(&g, got, 8);
                const bool inr = !(e < fpt<double>::emin || e > fpt<double>::emax);
                double r = std::ldexp(x, (int)std::max<int64_t>(-100000, std::min<int64_t>(100000, e)));
                memcpy(exp, &r, 8);
                *cls |= fp_cls(x) | fp_cls(r) | ((e == fpt<double>::emin || e == fpt<double>::emax || !inr) ? CL_EXTREME : 0) | (inr && std::ldexp(r, -(int)e) != x ? CL_INEXACT : 0);
                return same(g, r) ? J_OK : J_FAIL;
            };
        }
        auto j_nextafter = XSV_J { using T = XSV_T; exp = std::nextafter(a[0], a[1]); cls |= fp_cls(a[0]) | fp_cls(a[1]) | fp_cls(exp) | CL_BOUNDARY; return fin_same<T>(got, exp, cls); };
        def_fp("nextafter", "C02", 2, j_nextafter).gen_hint = "nextafter";

        // ---------------- C08 rounding: numeric equality with libm, sign of zero free
        auto rcls = [](auto x) -> unsigned {
            using T = decltype(x);
            unsigned c = fp_cls(x);
            if (!std::isfinite(x))
                return c;
            T ax = std::fabs(x);
            T fr = ax - std::floor(ax);
            if (fr == (T)0.5)
                c |= CL_TIE;
            T r = std::nearbyint(x);
            if (x != r && (std::fabs(x - r) <= 2 * std::numeric_limits<T>::epsilon() * std::max(ax, (T)1)))
                c |= CL_BOUNDARY;
            if (ax >= std::ldexp((T)1, model::fpt<T>::mant))
                c |= CL_EXTREME;
            if (x > -1 && x < 0)
                c |= CL_NEG;
            if (fr != 0)
                c |= CL_INEXACT;
            return c;
        };
        auto j_ceil = [rcls](auto* a, int64_t, auto got, auto& exp, unsigned& cls) -> int { using T = XSV_T; exp = std::ceil(a[0]); cls |= rcls(a[0]); return numeq<T>(got, exp) ? J_OK : J_FAIL; };
        auto j_floor = [rcls](auto* a, int64_t, auto got, auto& exp, unsigned& cls) -> int { using T = XSV_T; exp = std::floor(a[0]); cls |= rcls(a[0]); return numeq<T>(got, exp) ? J_OK : J_FAIL; };
        auto j_trunc = [rcls](auto* a, int64_t, auto got, auto& exp, unsigned& cls) -> int { using T = XSV_T; exp = std::trunc(a[0]); cls |= rcls(a[0]); return numeq<T>(got, exp) ? J_OK : J_FAIL; };
        auto j_round = [rcls](auto* a, int64_t, auto got, auto& exp, unsigned& cls) -> int { using T = XSV_T; exp = std::round(a[0]); cls |= rcls(a[0]); return numeq<T>(got, exp) ? J_OK : J_FAIL; };
        auto j_nearbyint = [rcls](auto* a, int64_t, auto got, auto& exp, unsigned& cls) -> int { using T = XSV_T; exp = std::nearbyint(a[0]); cls |= rcls(a[0]); return numeq<T>(got, exp) ? J_OK : J_FAIL; };
        def_fp("ceil", "C08", 1, j_ceil);
        def_fp("floor", "C08", 1, j_floor);
        def_fp("trunc", "C08", 1, j_trunc);
        def_fp("round", "C08", 1, j_round);
        def_fp("nearbyint", "C08", 1, j_nearbyint);
        def_fp("rint", "C08", 1, j_nearbyint);
        auto j_nbi_int = [rcls](auto* a, int64_t, auto got, auto& exp, unsigned& cls) -> int {
            using I = XSV_T;
            if (!std::isfinite(a[0]))
                return J_SKIP;
            auto r = std::nearbyint(a[0]);
            if (!(r >= (decltype(r))std::numeric_limits<I>::min() && r < -(decltype(r))std::numeric_limits<I>::min()))
                return J_SKIP; // does not fit the destination
            exp = (I)r;
            cls |= rcls(a[0]);
            return got == exp ? J_OK : J_FAIL;
        };
        auto j_to_int = [rcls](auto* a, int64_t, auto got, auto& exp, unsigned& cls) -> int {
            using I = XSV_T;
            if (!std::isfinite(a[0]))
                return J_SKIP;
            auto r = std::trunc(a[0]);
            if (!(r >= (decltype(r))std::numeric_limits<I>::min() && r < -(decltype(r))std::numeric_limits<I>::min()))
                return J_SKIP;
            exp = (I)r;
            cls |= rcls(a[0]);
            return got == exp ? J_OK : J_FAIL;
        };
        def_fp_toint("nearbyint_as_int", "C08", 1, j_nbi_int);
        def_fp_toint("to_int", "C08", 1, j_to_int);
    }
}
#endif
