// stub
static void run_c13(Context&) {}
template <class T> static bool c13_replay(Context&, const std::string&, const Target&, const xsv_entry*, const T*, const T*, mfn::Arbiter&) { return true; }
