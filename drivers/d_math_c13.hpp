// C13 (elementary functions): the result in a lane depends only on that lane's operand.  f(x)[k] is compared
// with f(broadcast(x[k]))[0]: same special-value class and within twice the function's accuracy bound (both are
// within one bound of the exact value); companions are drawn on both sides of every any()/all() threshold.
template <class T>
static int special_class(T v)
{
    if (std::isnan(v))
        return 1;
    if (std::isinf(v))
        return v > 0 ? 2 : 3;
    if (v == 0)
        return 4;
    return v > 0 ? 5 : 6;
}

template <class T>
static bool c13_batch(Context& cx, const Fn& f, const Target& tg, const xsv_entry* e, const T* xs, const T* ys, const char* layout)
{
    const int n = e->lanes;
    const bool binary = f.arity == 2;
    T full[64], bx[64], by[64], bo[64];
    CallResult cr = call<T>(cx, tg, e, xs, binary ? ys : nullptr, full);
    if (cr.overflowed)
        return true; // C14's business
    bool ok = true;
    for (int k = 0; k < n; ++k)
    {
        for (int i = 0; i < n; ++i)
        {
            bx[i] = xs[k];
            by[i] = binary ? ys[k] : (T)0;
        }
        CallResult c2 = call<T>(cx, tg, e, bx, binary ? by : nullptr, bo);
        if (c2.overflowed)
            continue;
        cx.st.lane_checks++;
        std::string why;
        // broadcasting one value gives identical results in all lanes
        for (int j = 1; j < n && why.empty(); ++j)
            if (!model::same(bo[0], bo[j]))
                why = "f(broadcast(v)) differs between lane 0 and lane " + std::to_string(j);
        const T a = full[k], b = bo[0];
        if (why.empty() && special_class(a) != special_class(b))
        {
            // a zero against a tiny non-zero value of the same sign is an accuracy matter, everything else is a class change
            const bool tiny = (a == 0 || b == 0) && std::fabs(a) <= 16 * std::numeric_limits<T>::min() && std::fabs(b) <= 16 * std::numeric_limits<T>::min();
            const bool huge = (std::isinf(a) || std::isinf(b)) && !std::isnan(a) && !std::isnan(b) && std::signbit(a) == std::signbit(b) && std::fabs(a) >= std::numeric_limits<T>::max() / 16 && std::fabs(b) >= std::numeric_limits<T>::max() / 16;
            if (!tiny && !huge)
                why = "special-value class of the lane changes with the companions";
        }
        if (why.empty() && std::isfinite(a) && std::isfinite(b) && a != b)
        {
            ld mv = mfn::metric_value(f, (ld)b);
            if (fabsl(mv) < 4 * (ld)std::numeric_limits<T>::min())
                mv = 4 * (ld)std::numeric_limits<T>::min();
            ld u = mfn::ulp_of(mv, prec<T>::p);
            double err = (double)(fabsl((ld)a - (ld)b) / u);
            double bound = 2 * mfn::bound_at<T>(f, (ld)xs[k], binary ? (ld)ys[k] : 0, (ld)b) + 1;
            // inside an open accuracy finding the results may differ by that class's regression bound
            if (err > bound && !math_known<T>(cx.opt, f, (ld)xs[k], binary ? (ld)ys[k] : 0, a, (ld)b, err / 2))
            {
                char buf[160];
                snprintf(buf, sizeof buf, "lane result differs from f(broadcast(v)) by %.1f ulp, more than twice the accuracy bound (%.1f): the companions change more than last-place bits", err, bound);
                why = buf;
            }
        }
        if (!why.empty())
        {
            ok = false;
            std::string key = std::string(f.name) + ":" + prec<T>::tn + ":" + tg.name;
            if (!cx.has_violation(key))
                cx.add_violation(math_viol<T>(cx, f.name, tg, n, xs, binary ? ys : nullptr, k, lane_str(prec<T>::tid, &b), lane_str(prec<T>::tid, &a), why + " [" + layout + "]"));
        }
    }
    return ok;
}

template <class T>
static void c13_type(Context& cx)
{
    using L = std::numeric_limits<T>;
    size_t item = 0;
    for (auto& f : mfn::table())
    {
        if (!cx.opt.only_ops.empty() && !cx.opt.only_ops.count(f.name))
            continue;
        for (auto& tg : g_targets)
        {
            const xsv_entry* e = tg.find(f.name, prec<T>::tn);
            if (!e)
                continue;
            if ((int)(item++ % (size_t)cx.opt.nworkers) != cx.opt.worker)
                continue;
            cx.st.per_target[tg.name]++;
            const int n = e->lanes;
            std::vector<double> pts = f.points;
            for (double p : f.points)
                pts.push_back(-p);
            rc::detail::TestParams params = rc::detail::configuration().testParams;
            params.seed = mix64(params.seed ^ hash_str(f.name, sizeof(T)) ^ hash_str(tg.name));
            params.maxSuccess = (int)std::max<long>(1, cx.opt.budget);
            rc::detail::TestMetadata md;
            md.id = std::string("c13:") + f.name + ":" + prec<T>::tn + ":" + tg.name;
            // one value relative to threshold p: which side, how far
            auto around = [&](double p, int side, uint64_t r) -> T {
                double rel = (double)((r >> 8) % 1000 + 1) / 4000.0; // up to 25 %
                if ((r & 3) == 0)
                    rel = (double)L::epsilon() * (double)((r >> 20) % 16 + 1); // a few ulp
                double v = p == 0 ? (side ? 1 : -1) * rel * 1e-3 : p * (1 + (side ? rel : -rel));
                return (T)v;
            };
            rc::detail::checkTestable(
                [&]() {
                    T xs[64], ys[64];
                    const int pattern = *rc::gen::resize(100, rc::gen::inRange<int>(0, 5));
                    const double p = *rc::gen::elementOf(pts);
                    const int odd = *rc::gen::resize(100, rc::gen::inRange<int>(0, n));
                    auto rs = *rc::gen::container<std::vector<uint64_t>>((size_t)(2 * n), rc::gen::resize(100, rc::gen::arbitrary<uint64_t>()));
                    int sides = 0;
                    for (int l = 0; l < n; ++l)
                    {
                        const uint64_t r = mix64(rs[l]);
                        int side = 0;
                        switch (pattern)
                        {
                        case 0: side = (int)(rs[0] & 1); break; // all lanes on one side of the threshold
                        case 1: side = l == odd ? 1 : 0; break; // exactly one lane on the other side
                        case 2: side = l == odd ? 0 : 1; break;
                        default: side = (int)(r >> 40) & 1; break; // mixed
                        }
                        sides |= 1 << side;
                        xs[l] = around(p, side, r);
                        if (pattern == 4)
                        {
                            // core / wide values, with a special value among them
                            const double lo = f.core_lo, hi = f.core_hi;
                            xs[l] = (T)(lo + (hi - lo) * ((double)(r >> 11) / 9007199254740992.0));
                            if ((r & 7) == 0)
                                xs[l] = (T)std::ldexp(1.0 + (double)(r >> 12) / 4503599627370496.0, (int)(r % 120) - 60) * ((r >> 9) & 1 ? -1 : 1);
                        }
                        ys[l] = (T)((double)((int64_t)(mix64(rs[n + l]) % 4001) - 2000) / 100.0);
                    }
                    if (pattern >= 3)
                    {
                        static const T sp[] = { L::quiet_NaN(), L::infinity(), -L::infinity(), (T)0, -(T)0, L::max(), -L::max(), L::denorm_min(), L::min() };
                        xs[(odd + 1) % n] = sp[rs[0] % 9];
                    }
                    cx.st.evaluations++;
                    // non-trivial: lanes not all equal and at least two lanes on different sides of a threshold (or a special companion)
                    if (sides == 3 || pattern >= 3)
                        cx.st.note_distinct(hash_bytes(xs, sizeof(T) * n, hash_str(f.name, n)));
                    else
                        cx.st.cls("trivial");
                    static const char* pn[] = { "all_one_side", "one_lane_above", "one_lane_below", "mixed_plus_special", "core_plus_special" };
                    cx.st.classes[std::string("pattern_") + pn[pattern]]++;
                    if (cx.st.want_sample(std::string(f.name) + pn[pattern], 1) && cx.st.samples.size() < 80)
                    {
                        char b[200];
                        snprintf(b, sizeof b, "{\"fn\":\"%s\",\"type\":\"%s\",\"pattern\":\"%s\",\"threshold\":\"%.9g\",\"lanes_head\":[\"%.9g\",\"%.9g\"]}", f.name, prec<T>::tn, pn[pattern], p, (double)xs[0], (double)xs[1 % n]);
                        cx.st.samples.push_back(b);
                    }
                    RC_ASSERT(c13_batch<T>(cx, f, tg, e, xs, ys, pn[pattern]));
                },
                md, params);
        }
        cx.write_out();
    }
}

static void run_c13(Context& cx)
{
    c13_type<float>(cx);
    c13_type<double>(cx);
}

template <class T>
static bool c13_replay(Context& cx, const std::string& op, const Target& tg, const xsv_entry* e, const T* xs, const T* ys, mfn::Arbiter&)
{
    const Fn* f = mfn::find(op);
    if (!f)
        return true;
    return c13_batch<T>(cx, *f, tg, e, xs, ys, "replay");
}
