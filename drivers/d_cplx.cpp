// C16: complex batches compute per-lane complex arithmetic consistent with std::complex.
// Operands: log-polar grid (moduli 2^k(1+r), arguments j*pi/16 + delta, the four axes with a +0 / -0 vanishing
// component) and uniform operands; reference: std::complex<long double> (64-bit significand: its own error is
// below 2^-9 eps of the judged precision, negligible against the 8 / 32 eps tolerances).
#include <rapidcheck.h>

#include <complex>

#include "fp_model.hpp"
#include "xsv.hpp"

using namespace xsv;
typedef long double ld;
typedef std::complex<ld> cld;

enum MKind
{
    M_RESULT, // |result|
    M_MAX1, // max(|result|, 1)
    M_FUSED // max(|result|, |x||y|, |z|)
};
enum Dom
{
    D_ANY,
    D_NONZERO2, // second operand non-zero (division)
    D_BOX20, // |Re|,|Im| <= 20
    D_POW // |y ln|z|| <= 8
};
struct COp
{
    const char* name;
    int arity;
    double tol; // eps units ; 0: exact (bitwise)
    MKind mk;
    Dom dom;
    cld (*ref)(cld, cld, cld);
    bool real_result;
};
static const ld PIl = 3.14159265358979323846264338327950288L;
static cld r_polar(cld a, cld b, cld) { return std::polar(a.real(), b.real()); }
static cld r_proj(cld a, cld, cld) { return std::proj(a); }
static const COp kOps[] = {
    { "add", 2, 8, M_RESULT, D_ANY, [](cld a, cld b, cld) { return a + b; }, false },
    { "fadd", 2, 8, M_RESULT, D_ANY, [](cld a, cld b, cld) { return a + b; }, false },
    { "sub", 2, 8, M_RESULT, D_ANY, [](cld a, cld b, cld) { return a - b; }, false },
    { "mul", 2, 8, M_RESULT, D_ANY, [](cld a, cld b, cld) { return cld(a.real() * b.real() - a.imag() * b.imag(), a.real() * b.imag() + a.imag() * b.real()); }, false },
    { "fmul", 2, 8, M_RESULT, D_ANY, [](cld a, cld b, cld) { return cld(a.real() * b.real() - a.imag() * b.imag(), a.real() * b.imag() + a.imag() * b.real()); }, false },
    { "div", 2, 8, M_RESULT, D_NONZERO2, [](cld a, cld b, cld) { ld d = b.real() * b.real() + b.imag() * b.imag(); return cld((a.real() * b.real() + a.imag() * b.imag()) / d, (a.imag() * b.real() - a.real() * b.imag()) / d); }, false },
    { "add_assign", 2, 8, M_RESULT, D_ANY, [](cld a, cld b, cld) { return a + b; }, false },
    { "sub_assign", 2, 8, M_RESULT, D_ANY, [](cld a, cld b, cld) { return a - b; }, false },
    { "mul_assign", 2, 8, M_RESULT, D_ANY, [](cld a, cld b, cld) { return cld(a.real() * b.real() - a.imag() * b.imag(), a.real() * b.imag() + a.imag() * b.real()); }, false },
    { "div_assign", 2, 8, M_RESULT, D_NONZERO2, [](cld a, cld b, cld) { ld d = b.real() * b.real() + b.imag() * b.imag(); return cld((a.real() * b.real() + a.imag() * b.imag()) / d, (a.imag() * b.real() - a.real() * b.imag()) / d); }, false },
    { "add_self", 1, 8, M_RESULT, D_ANY, [](cld a, cld, cld) { return a + a; }, false },
    { "sub_self", 1, 8, M_MAX1, D_ANY, [](cld a, cld, cld) { return cld(0, 0) * a.real() * 0.0L; }, false },
    { "mul_self", 1, 8, M_RESULT, D_ANY, [](cld a, cld, cld) { return cld(a.real() * a.real() - a.imag() * a.imag(), 2 * a.real() * a.imag()); }, false },
    { "div_self", 1, 8, M_MAX1, D_ANY, [](cld a, cld, cld) { ld d = a.real() * a.real() + a.imag() * a.imag(); return cld((a.real() * a.real() + a.imag() * a.imag()) / d, (a.imag() * a.real() - a.real() * a.imag()) / d); }, false },
    { "fma", 3, 8, M_FUSED, D_ANY, [](cld a, cld b, cld c) { return a * b + c; }, false },
    { "fms", 3, 8, M_FUSED, D_ANY, [](cld a, cld b, cld c) { return a * b - c; }, false },
    { "fnma", 3, 8, M_FUSED, D_ANY, [](cld a, cld b, cld c) { return -(a * b) + c; }, false },
    { "fnms", 3, 8, M_FUSED, D_ANY, [](cld a, cld b, cld c) { return -(a * b) - c; }, false },
    { "neg", 1, 0, M_RESULT, D_ANY, [](cld a, cld, cld) { return -a; }, false },
    { "conj", 1, 0, M_RESULT, D_ANY, [](cld a, cld, cld) { return std::conj(a); }, false },
    { "proj", 1, 0, M_RESULT, D_ANY, r_proj, false },
    { "real", 1, 0, M_RESULT, D_ANY, [](cld a, cld, cld) { return cld(a.real(), 0); }, true },
    { "imag", 1, 0, M_RESULT, D_ANY, [](cld a, cld, cld) { return cld(a.imag(), 0); }, true },
    { "norm", 1, 32, M_MAX1, D_ANY, [](cld a, cld, cld) { return cld(a.real() * a.real() + a.imag() * a.imag(), 0); }, true },
    { "abs", 1, 32, M_MAX1, D_ANY, [](cld a, cld, cld) { return cld(hypotl(a.real(), a.imag()), 0); }, true },
    { "arg", 1, 32, M_MAX1, D_ANY, [](cld a, cld, cld) { return cld(atan2l(a.imag(), a.real()), 0); }, true },
    { "polar", 2, 32, M_MAX1, D_BOX20, r_polar, false },
    { "exp", 1, 8, M_MAX1, D_BOX20, [](cld a, cld, cld) { return std::exp(a); }, false },
    { "expm1", 1, 8, M_MAX1, D_BOX20, [](cld a, cld, cld) { ld e = expm1l(a.real()); ld c = cosl(a.imag()), s = sinl(a.imag()); ld sh = sinl(a.imag() / 2); return cld(e * c - 2 * sh * sh, (e + 1) * s); }, false },
    { "log", 1, 32, M_MAX1, D_ANY, [](cld a, cld, cld) { return cld(logl(hypotl(a.real(), a.imag())), atan2l(a.imag(), a.real())); }, false },
    { "log2", 1, 32, M_MAX1, D_ANY, [](cld a, cld, cld) { return cld(logl(hypotl(a.real(), a.imag())), atan2l(a.imag(), a.real())) / logl(2.0L); }, false },
    { "log10", 1, 32, M_MAX1, D_ANY, [](cld a, cld, cld) { return cld(logl(hypotl(a.real(), a.imag())), atan2l(a.imag(), a.real())) / logl(10.0L); }, false },
    { "sqrt", 1, 8, M_MAX1, D_ANY, [](cld a, cld, cld) { return std::sqrt(a); }, false },
    { "sin", 1, 8, M_MAX1, D_BOX20, [](cld a, cld, cld) { return cld(sinl(a.real()) * coshl(a.imag()), cosl(a.real()) * sinhl(a.imag())); }, false },
    { "cos", 1, 8, M_MAX1, D_BOX20, [](cld a, cld, cld) { return cld(cosl(a.real()) * coshl(a.imag()), -sinl(a.real()) * sinhl(a.imag())); }, false },
    { "sincos_s", 1, 8, M_MAX1, D_BOX20, [](cld a, cld, cld) { return cld(sinl(a.real()) * coshl(a.imag()), cosl(a.real()) * sinhl(a.imag())); }, false },
    { "sincos_c", 1, 8, M_MAX1, D_BOX20, [](cld a, cld, cld) { return cld(cosl(a.real()) * coshl(a.imag()), -sinl(a.real()) * sinhl(a.imag())); }, false },
    { "sinh", 1, 8, M_MAX1, D_BOX20, [](cld a, cld, cld) { return cld(sinhl(a.real()) * cosl(a.imag()), coshl(a.real()) * sinl(a.imag())); }, false },
    { "cosh", 1, 8, M_MAX1, D_BOX20, [](cld a, cld, cld) { return cld(coshl(a.real()) * cosl(a.imag()), sinhl(a.real()) * sinl(a.imag())); }, false },
    { "tan", 1, 32, M_MAX1, D_BOX20, [](cld a, cld, cld) { ld d = cosl(2 * a.real()) + coshl(2 * a.imag()); return cld(sinl(2 * a.real()) / d, sinhl(2 * a.imag()) / d); }, false },
    { "tanh", 1, 32, M_MAX1, D_BOX20, [](cld a, cld, cld) { ld d = coshl(2 * a.real()) + cosl(2 * a.imag()); return cld(sinhl(2 * a.real()) / d, sinl(2 * a.imag()) / d); }, false },
    { "pow_real", 2, 32, M_MAX1, D_POW, [](cld a, cld b, cld) { ld r = hypotl(a.real(), a.imag()), t = atan2l(a.imag(), a.real()); ld m = powl(r, b.real()); return cld(m * cosl(b.real() * t), m * sinl(b.real() * t)); }, false },
};

static std::vector<Target> g_targets;

template <class T>
struct CT
{
    static constexpr const char* tn = sizeof(T) == 4 ? "c32" : "c64";
    static constexpr TypeId tid = sizeof(T) == 4 ? F32 : F64;
};

template <class T>
static Violation cviol(Context& cx, const COp& op, const Target& tg, int n, const T* x, const T* y, const T* z, int lane, const std::string& exp, const std::string& got, const std::string& why)
{
    Violation v;
    v.kind = "cplx";
    v.prop = "C16";
    v.op = op.name;
    v.type = CT<T>::tn;
    v.target = tg.name;
    v.lane = lane;
    v.in_hex = { hex(x, (size_t)2 * n * sizeof(T)), op.arity > 1 ? hex(y, (size_t)2 * n * sizeof(T)) : std::string("-"), op.arity > 2 ? hex(z, (size_t)2 * n * sizeof(T)) : std::string("-") };
    if (lane >= 0)
    {
        char b[200];
        snprintf(b, sizeof b, "(%.17g,%.17g)", (double)x[lane], (double)x[n + lane]);
        v.in_lane.push_back(b);
        if (op.arity > 1)
        {
            snprintf(b, sizeof b, "(%.17g,%.17g)", (double)y[lane], (double)y[n + lane]);
            v.in_lane.push_back(b);
        }
        if (op.arity > 2)
        {
            snprintf(b, sizeof b, "(%.17g,%.17g)", (double)z[lane], (double)z[n + lane]);
            v.in_lane.push_back(b);
        }
    }
    v.expected = exp;
    v.got = got;
    v.why = why;
    return v;
}

template <class T>
static bool in_domain(const COp& op, cld a, cld b)
{
    switch (op.dom)
    {
    case D_NONZERO2: return std::abs(b) != 0;
    case D_BOX20:
        if (std::string(op.name) == "polar")
            return a.real() >= 0 && fabsl(b.real()) <= 20;
        return fabsl(a.real()) <= 20 && fabsl(a.imag()) <= 20;
    case D_POW: return std::abs(a) != 0 && std::isfinite((double)b.real());
    default: return true;
    }
}

static const char* cplx_known(const Options& o, const COp& op, cld a, cld b, double err, double eps)
{
    const std::string n = op.name;
    if (n == "pow_real" && o.known.count("cpow_large_exponent"))
    {
        // D23: pow(z, y) = exp(y log z) loses about one eps per unit of |y log z| (complex logarithm: modulus and angle)
        // (the logarithm itself carries an absolute error of about one eps even when |log z| < 1)
        ld t = fabsl(b.real()) * std::max((ld)1, std::abs(std::log(a)));
        if (t > 6 && err <= 4.0 * (1.0 + (double)t))
            return "cpow_large_exponent";
    }
    if ((n == "tan" || n == "tanh") && o.known.count("ctan_near_pole"))
    {
        // D22: cancellation in the denominator cos 2x + cosh 2y (tanh: cosh 2x + cos 2y)
        ld d = n == "tan" ? cosl(2 * a.real()) + coshl(2 * a.imag()) : coshl(2 * a.real()) + cosl(2 * a.imag());
        // when the exact denominator is itself below a few rounding units of its two terms (each of size 1), the computed one can
        // vanish altogether and the quotient is inf or NaN: the same cancellation, at its end point
        if (fabsl(d) < 0.125L && (err <= 32.0 / (double)fabsl(d) || fabsl(d) <= 16 * (ld)eps))
            return "ctan_near_pole";
    }
    return nullptr;
}

// run one batch on one target and judge every lane; returns true if no unknown violation
template <class T>
static bool run_batch(Context& cx, const COp& op, const Target& tg, const xsv_entry* e, const T* x, const T* y, const T* z)
{
    const int n = e->lanes;
    alignas(64) unsigned char ix[128], iy[128], iz[128], out[256];
    memcpy(ix, x, (size_t)2 * n * sizeof(T));
    memcpy(iy, y, (size_t)2 * n * sizeof(T));
    memcpy(iz, z, (size_t)2 * n * sizeof(T));
    memset(out, 0, sizeof out);
    xsv_args a;
    memset(&a, 0, sizeof a);
    a.in[0] = ix;
    a.in[1] = iy;
    a.in[2] = iz;
    a.out[0] = out;
    cx.current_valid = true;
    cx.current = cviol<T>(cx, op, tg, n, x, y, z, -1, "", "", "");
    e->fn(&a);
    cx.current_valid = false;
    cx.st.executions++;
    T o[32];
    memcpy(o, out, (size_t)2 * n * sizeof(T));
    const ld eps = std::numeric_limits<T>::epsilon();
    bool ok = true;
    const std::string name = op.name;
    for (int l = 0; l < n; ++l)
    {
        cld za((ld)x[l], (ld)x[n + l]), zb((ld)y[l], (ld)y[n + l]), zc((ld)z[l], (ld)z[n + l]);
        if (name == "polar")
        {
            za = cld((ld)x[l], 0);
            zb = cld((ld)y[l], 0);
        }
        if (name == "pow_real")
            zb = cld((ld)y[l], 0);
        if (!in_domain<T>(op, za, zb))
        {
            cx.st.skipped_lanes++;
            continue;
        }
        std::string why, exps, gots;
        if (name == "eq" || name == "ne")
            continue;
        cld r = op.ref(za, zb, zc);
        cld g((ld)o[l], op.real_result ? 0 : (ld)o[n + l]);
        if (op.tol != 0 && (!std::isfinite((double)r.real()) || !std::isfinite((double)r.imag())))
        {
            cx.st.skipped_lanes++;
            continue;
        }
        cx.st.lane_checks++;
        double err = 0;
        if (op.tol == 0)
        {
            T er = (T)r.real(), ei = (T)r.imag();
            // bit for bit; a NaN component matches any NaN (payload and sign of a NaN are not part of the claim)
            bool same = model::same(er, o[l]) && (op.real_result || model::same(ei, o[n + l]));
            if (!same)
                why = "exact operation: result bits differ";
        }
        else
        {
            ld M = std::abs(r);
            if (op.mk == M_MAX1)
                M = std::max(M, (ld)1);
            else if (op.mk == M_FUSED)
                M = std::max(M, std::max(std::abs(za) * std::abs(zb), std::abs(zc)));
            if (M == 0)
                M = std::numeric_limits<T>::min();
            ld d = std::max(fabsl(g.real() - r.real()), fabsl(g.imag() - r.imag()));
            err = std::isfinite((double)g.real()) && std::isfinite((double)g.imag()) ? (double)(d / (eps * M)) : HUGE_VAL;
            std::string k = std::string(op.name) + ":" + CT<T>::tn;
            if (err > op.tol)
            {
                const char* kn = cplx_known(cx.opt, op, za, zb, err, (double)eps);
                if (kn)
                {
                    cx.st.known_hits++;
                    cx.st.known_by_class[kn]++;
                    continue;
                }
                char b[200];
                snprintf(b, sizeof b, "component error %.2f eps*M exceeds %.0f (M = %s)", err, op.tol, op.mk == M_RESULT ? "|result|" : (op.mk == M_MAX1 ? "max(|result|,1)" : "max(|result|,|x||y|,|z|)"));
                why = b;
            }
            else if (std::isfinite(err))
            {
                auto it = cx.st.maxima.find(k);
                if (it == cx.st.maxima.end() || err > it->second)
                {
                    char b[160];
                    snprintf(b, sizeof b, "z=(%.9g,%.9g) on %s", (double)x[l], (double)x[n + l], tg.name.c_str());
                    cx.st.maxv(k, err, b);
                }
            }
        }
        if (!why.empty())
        {
            ok = false;
            char b1[120], b2[120];
            snprintf(b1, sizeof b1, "(%.17Lg,%.17Lg)", r.real(), r.imag());
            snprintf(b2, sizeof b2, "(%.17g,%.17g)", (double)o[l], (double)o[n + l]);
            std::string key = std::string(op.name) + ":" + CT<T>::tn + ":" + tg.name;
            if (!cx.has_violation(key))
                cx.add_violation(cviol<T>(cx, op, tg, n, x, y, z, l, b1, b2, why));
        }
    }
    return ok;
}

template <class T>
static void run_eq(Context& cx, const Target& tg, const T* x, const T* y)
{
    for (const char* nm : { "eq", "ne" })
    {
        const xsv_entry* e = tg.find(nm, CT<T>::tn);
        if (!e)
            continue;
        const int n = e->lanes;
        alignas(64) unsigned char ix[128], iy[128], out[256];
        memcpy(ix, x, (size_t)2 * n * sizeof(T));
        memcpy(iy, y, (size_t)2 * n * sizeof(T));
        xsv_args a;
        memset(&a, 0, sizeof a);
        a.in[0] = ix;
        a.in[1] = iy;
        a.out[0] = out;
        e->fn(&a);
        cx.st.executions++;
        for (int l = 0; l < n; ++l)
        {
            bool eq = x[l] == y[l] && x[n + l] == y[n + l];
            bool exp = nm[0] == 'e' ? eq : !eq;
            cx.st.lane_checks++;
            if ((out[l] != 0) != exp)
            {
                COp op = { nm, 2, 0, M_RESULT, D_ANY, nullptr, false };
                cx.add_violation(cviol<T>(cx, op, tg, n, x, y, y, l, exp ? "true" : "false", out[l] ? "true" : "false", "complex comparison must compare both components"));
            }
        }
    }
}

// one complex operand on the log-polar grid
struct Pol
{
    int k; // modulus exponent
    double r; // mantissa fraction in [0,1)
    int j; // angle index (pi/16 steps)
    double delta; // small angular offset
    int axis_zero; // 0: none, 1: vanishing component +0, 2: vanishing component -0 (only when on an axis)
};
template <class T>
static void to_cart(const Pol& p, T& re, T& im)
{
    ld mod = ldexpl(1.0L + p.r, p.k);
    ld ang = p.j * PIl / 16 + p.delta;
    re = (T)(mod * cosl(ang));
    im = (T)(mod * sinl(ang));
    if (p.j % 8 == 0 && p.axis_zero)
    {
        const int q = ((p.j % 32) + 32) % 32 / 8; // 0:+x 1:+y 2:-x 3:-y
        T zero = p.axis_zero == 2 ? -(T)0 : (T)0;
        if (q == 0 || q == 2)
        {
            re = (T)(q == 0 ? mod : -mod);
            im = zero;
        }
        else
        {
            im = (T)(q == 1 ? mod : -mod);
            re = zero;
        }
    }
}

template <class T>
static void c16_type(Context& cx)
{
    const int kmax = sizeof(T) == 4 ? 20 : 60;
    size_t item = 0;
    for (auto& op : kOps)
    {
        if (!cx.opt.only_ops.empty() && !cx.opt.only_ops.count(op.name))
            continue;
        for (auto& tg : g_targets)
        {
            const xsv_entry* e = tg.find(op.name, CT<T>::tn);
            if (!e)
                continue;
            if ((int)(item++ % (size_t)cx.opt.nworkers) != cx.opt.worker)
                continue;
            cx.st.per_target[tg.name]++;
            const int n = e->lanes;
            const bool box = op.dom == D_BOX20;
            rc::detail::TestParams params = rc::detail::configuration().testParams;
            params.seed = mix64(params.seed ^ hash_str(op.name, sizeof(T)) ^ hash_str(tg.name));
            params.maxSuccess = (int)std::max<long>(1, cx.opt.budget);
            rc::detail::TestMetadata md;
            md.id = std::string(op.name) + ":" + CT<T>::tn + ":" + tg.name;
            auto polg = [&](int klo, int khi) {
                return rc::gen::map(rc::gen::tuple(rc::gen::inRange<int>(klo, khi + 1), rc::gen::arbitrary<uint32_t>(), rc::gen::inRange<int>(0, 32), rc::gen::inRange<int>(0, 6), rc::gen::inRange<int>(0, 3)),
                                    [](std::tuple<int, uint32_t, int, int, int> t) {
                                        Pol p;
                                        p.k = std::get<0>(t);
                                        uint64_t m = mix64(std::get<1>(t));
                                        p.r = (std::get<3>(t) == 0) ? 0.0 : (double)(m >> 12) / 4503599627370496.0;
                                        p.j = std::get<2>(t);
                                        static const double dl[] = { 0, 0, 1e-3, -1e-3, 1e-7, 0.05 };
                                        p.delta = dl[std::get<3>(t)];
                                        p.axis_zero = std::get<4>(t);
                                        return p;
                                    });
            };
            rc::detail::checkTestable(
                [&]() {
                    T x[32], y[32], z[32];
                    const bool exact_op = op.tol == 0; // neg conj proj real imag: any component value, compared bit for bit
                    int mode = *rc::gen::resize(100, rc::gen::inRange<int>(0, exact_op ? 7 : 5));
                    // modes 0-3: log-polar grid / box; 4-5 (exact operations only): raw components; 6: independent component magnitudes
                    const bool indep = exact_op ? mode == 6 : mode == 4;
                    if (indep)
                        mode = 6;
                    const int khi = box ? 4 : kmax;
                    auto px = *rc::gen::container<std::vector<Pol>>((size_t)n, rc::gen::resize(100, polg(-kmax, khi)));
                    auto py = *rc::gen::container<std::vector<Pol>>((size_t)n, rc::gen::resize(100, polg(mode == 1 ? -3 : -kmax, mode == 1 ? 3 : kmax)));
                    auto pz = *rc::gen::container<std::vector<Pol>>((size_t)n, rc::gen::resize(100, polg(-kmax, kmax)));
                    auto ur = *rc::gen::container<std::vector<uint64_t>>((size_t)(6 * n), rc::gen::resize(100, rc::gen::arbitrary<uint64_t>()));
                    bool nontrivial = false;
                    for (int l = 0; l < n; ++l)
                    {
                        to_cart<T>(px[l], x[l], x[n + l]);
                        to_cart<T>(py[l], y[l], y[n + l]);
                        to_cart<T>(pz[l], z[l], z[n + l]);
                        if (mode == 3)
                        {
                            // uniform operands in a box
                            auto u = [&](int i) { return (T)(((double)(mix64(ur[6 * l + i]) >> 11) / 9007199254740992.0 - 0.5) * (box ? 40.0 : 200.0)); };
                            x[l] = u(0);
                            x[n + l] = u(1);
                            y[l] = u(2);
                            y[n + l] = u(3);
                            z[l] = u(4);
                            z[n + l] = u(5);
                        }
                        if (indep)
                        {
                            // real and imaginary part of independent magnitude (one huge, one tiny): the operand is finite and so is
                            // every intermediate of the textbook formulas, but |z| is dominated by one component
                            const int kc = sizeof(T) == 4 ? 45 : 480;
                            auto comp = [&](int i) -> T {
                                const uint64_t r = mix64(ur[6 * l + i]);
                                const int ex = (int)(r % (uint64_t)(2 * kc + 1)) - kc;
                                const ld m = 1.0L + (ld)((r >> 20) & 0xFFFFF) / 1048576.0L;
                                return (T)(((r >> 63) ? -1 : 1) * ldexpl(m, (r >> 40) % 4 == 0 ? ex / 8 : ex));
                            };
                            x[l] = comp(0);
                            x[n + l] = comp(1);
                            y[l] = comp(2);
                            y[n + l] = comp(3);
                            z[l] = comp(4);
                            z[n + l] = comp(5);
                        }
                        else if (mode >= 4)
                        {
                            // raw components: special values, huge / tiny magnitudes (|z|^2 overflows or underflows), arbitrary bit patterns
                            using L = std::numeric_limits<T>;
                            static const T sp[] = { (T)0, -(T)0, L::denorm_min(), L::min(), (T)1, (T)-1.5, L::max(), -L::max(), L::infinity(), -L::infinity(), L::quiet_NaN(),
                                                    (T)1e19, (T)-3e19, (T)1e30, (T)(sizeof(T) == 8 ? 1e154 : 1e38), (T)(sizeof(T) == 8 ? -1e200 : -2e38), (T)(sizeof(T) == 8 ? 1e-200 : 1e-30) };
                            auto pick = [&](int i) -> T {
                                const uint64_t r = mix64(ur[6 * l + i]);
                                if (r & 3)
                                    return sp[(r >> 8) % (sizeof sp / sizeof sp[0])];
                                T v;
                                const uint64_t bits = r >> 2 ^ r << 17;
                                memcpy(&v, &bits, sizeof v);
                                return v;
                            };
                            x[l] = pick(0);
                            x[n + l] = pick(1);
                            y[l] = pick(2);
                            y[n + l] = pick(3);
                        }
                        if (std::string(op.name) == "pow_real" || std::string(op.name) == "polar")
                        {
                            // real second operand: exponent with |y ln|z|| <= 8 / angle in [-20, 20]
                            double lnz = std::log(std::hypot((double)x[l], (double)x[n + l]));
                            double yy = ((double)(mix64(ur[6 * l]) >> 11) / 9007199254740992.0 - 0.5) * 2;
                            y[l] = std::string(op.name) == "polar" ? (T)(yy * 20) : (T)(yy * 8 / std::max(1e-3, std::fabs(lnz)));
                            if (std::string(op.name) == "pow_real" && std::fabs((double)y[l]) > 64)
                                y[l] = (T)(yy * 64);
                            y[n + l] = 0;
                            if (std::string(op.name) == "polar")
                                x[l] = std::fabs(x[l]);
                        }
                        // non-trivial: not in the open first quadrant, on an axis, a +-0 component, or very different moduli
                        if (!(x[l] > 0 && x[n + l] > 0) || x[l] == 0 || x[n + l] == 0 || std::abs(px[l].k - py[l].k) >= 10)
                            nontrivial = true;
                    }
                    cx.st.evaluations++;
                    static const char* mn[] = { "grid", "grid_second_moderate", "grid_wide", "uniform_box", "raw_components", "raw_components", "independent_components" };
                    cx.st.classes[std::string("mode_") + mn[mode]]++;
                    if (nontrivial)
                        cx.st.note_distinct(hash_bytes(x, sizeof(T) * 2 * n, hash_bytes(y, sizeof(T) * 2 * n, hash_str(op.name))));
                    else
                        cx.st.cls("trivial");
                    if (cx.st.want_sample(std::string(op.name) + CT<T>::tn, 1) && cx.st.samples.size() < 80)
                    {
                        char b[240];
                        snprintf(b, sizeof b, "{\"op\":\"%s\",\"type\":\"%s\",\"mode\":\"%s\",\"x0\":\"(%.9g,%.9g)\",\"y0\":\"(%.9g,%.9g)\"}", op.name, CT<T>::tn, mn[mode], (double)x[0], (double)x[n], (double)y[0], (double)y[n]);
                        cx.st.samples.push_back(b);
                    }
                    bool ok = run_batch<T>(cx, op, tg, e, x, y, z);
                    if (std::string(op.name) == "add")
                    {
                        // == / != share the operands; make some lanes equal in one or both components
                        for (int l = 0; l < n; ++l)
                        {
                            if (l % 4 == 0 || l % 4 == 2)
                                y[l] = x[l];
                            if (l % 4 == 0 || l % 4 == 1)
                                y[n + l] = x[n + l]; // lane classes: both equal, imaginary equal only, real equal only, both differ
                        }
                        run_eq<T>(cx, tg, x, y);
                    }
                    RC_ASSERT(ok || cx.termination_only);
                },
                md, params);
        }
        cx.write_out();
    }
}

template <class T>
static int replay_t(Context& cx, const std::vector<std::string>& tok)
{
    const COp* op = nullptr;
    for (auto& o : kOps)
        if (tok[0] == o.name)
            op = &o;
    const bool cmp = tok[0] == "eq" || tok[0] == "ne"; // judged by run_eq on the recorded operand pair
    if (!op && !cmp)
    {
        printf("REPLAY-SKIP unknown op\n");
        return 0;
    }
    auto xb = unhex(tok[4]);
    std::vector<unsigned char> yb, zb;
    if (tok.size() > 5 && tok[5] != "-")
        yb = unhex(tok[5]);
    if (tok.size() > 6 && tok[6] != "-")
        zb = unhex(tok[6]);
    int bad = 0, ran = 0;
    for (auto& tg : g_targets)
    {
        if (tok[2] != "*" && tok[2] != tg.name)
            continue;
        const xsv_entry* e = tg.find(tok[0], CT<T>::tn);
        if (!e)
            continue;
        const int n = e->lanes;
        if (xb.size() != (size_t)2 * n * sizeof(T))
            continue;
        T x[32], y[32], z[32];
        memset(y, 0, sizeof y);
        memset(z, 0, sizeof z);
        memcpy(x, xb.data(), xb.size());
        if (!yb.empty())
            memcpy(y, yb.data(), std::min(yb.size(), sizeof y));
        if (!zb.empty())
            memcpy(z, zb.data(), std::min(zb.size(), sizeof z));
        ++ran;
        if (cmp)
        {
            const size_t before = cx.violations.size();
            run_eq<T>(cx, tg, x, y);
            if (cx.violations.size() != before)
                ++bad;
            continue;
        }
        if (!run_batch<T>(cx, *op, tg, e, x, y, z))
            ++bad;
    }
    if (bad)
        printf("REPLAY-FAIL %s\n", cx.violations.empty() ? "{}" : cx.violations[0].to_json().c_str());
    else
        printf(ran ? "REPLAY-PASS (known_hits=%llu)\n" : "REPLAY-SKIP\n", (unsigned long long)cx.st.known_hits);
    return bad ? 1 : 0;
}

int main(int argc, char** argv)
{
    Context cx;
    cx.opt = parse_options(argc, argv);
    g_ctx() = &cx;
    install_crash_handlers();
    cx.termination_only = cx.opt.prop == "C14" && cx.opt.replay.empty(); // C14 stage: execute everything, report only calls that do not return
    g_targets = load_targets(cx.opt, "cplx");
    if (!cx.opt.replay.empty())
    {
        if (cx.opt.replay.size() < 5)
            return 2;
        return cx.opt.replay[1] == "c32" ? replay_t<float>(cx, cx.opt.replay) : replay_t<double>(cx, cx.opt.replay);
    }
    c16_type<float>(cx);
    c16_type<double>(cx);
    cx.write_out();
    return cx.violations.empty() ? 0 : 1;
}
