"""Regenerates MANIFEST.json from the registry (python3 -m xsv.manifest)."""
import json
import os
import sys

sys.path.insert(0, os.path.dirname(os.path.dirname(os.path.abspath(__file__))))
from xsv import props  # noqa: E402

VERIF = os.path.dirname(os.path.dirname(os.path.abspath(__file__)))

LEVELS = props.LEVELS if hasattr(props, "LEVELS") else {}


def main():
    ids = [json.loads(l)["id"] for l in open(os.path.join(VERIF, "properties.jsonl"))]
    checks = []
    na = []
    for pid in ids:
        if pid in props.REGISTRY and pid in props.META:
            m = props.META[pid]
            checks.append({
                "property_id": pid,
                "quick_cmd": "./check %s --tier quick" % pid,
                "thorough_cmd": "./check %s --tier thorough" % pid,
                "evidence_file": "/verif/evidence/%s.json" % pid,
                "replay_cmd_template": "./check %s --replay {path}" % pid,
                "engine": m["engine"],
                "level_claimed": {"category": m.get("level", "exploration"), "text": m["level_text"], "design_ref": m["design_ref"]},
                "level_note": m["level_note"],
                "technique": m["technique"],
            })
        else:
            na.append({"property_id": pid, "reason": props.NOT_YET.get(pid, "check not built yet in this session; see DESIGN.md section 4 for the planned generated-input check")})
    man = {
        "version": 1,
        "setup_cmd": "python3 -m xsv.setup",
        "hooks": {
            "guard": "XSIMD_VERIF_HOOKS",
            "enable": "every shim/driver that includes xsimd is compiled with -DXSIMD_VERIF_HOOKS (xsv/build.py)",
            "baseline_off_cmd": "cmake --build /repo/_build -j16 && ctest --test-dir /repo/_build -j8 --timeout 900",
            "source_commits": props.HOOK_COMMITS,
            "add_only": True,
        },
        "engines": props.ENGINES,
        "checks": checks,
        "notes": "All checks are generated-input search against an explicit oracle (DESIGN.md). ./check <id> --tier quick|thorough; VERIF_SEED selects the seed.",
        "not_applicable": na,
    }
    json.dump(man, open(os.path.join(VERIF, "MANIFEST.json"), "w"), indent=1)
    print("checks:", len(checks), "not_applicable:", len(na))


if __name__ == "__main__":
    main()
