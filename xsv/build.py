"""Content-addressed build cache for shims, drivers and generated programs (DESIGN 2.1).

Every object is keyed by sha256(tree hash of /repo/include || source files || flags || compiler id)
so that a check always runs code built from /repo's *current* working tree and an unchanged tree
is never rebuilt.
"""
import hashlib
import json
import os
import shutil
import subprocess
import sys
import time
from concurrent.futures import ThreadPoolExecutor

VERIF = os.path.dirname(os.path.dirname(os.path.abspath(__file__)))
REPO = os.environ.get("XSV_REPO", "/repo")
CACHE = os.path.join(VERIF, "build", "cache")
HOOK_GUARD = "XSIMD_VERIF_HOOKS"
JOBS = int(os.environ.get("XSV_JOBS", "16"))

_ARCHS = None


def archs():
    global _ARCHS
    if _ARCHS is None:
        _ARCHS = json.load(open(os.path.join(VERIF, "archs.json")))
    return _ARCHS


# pseudo targets of the "scalar" shim family (C17): the scalar overloads compiled without and with FMA contraction available
SCALAR_TARGETS = [
    {"name": "scalar", "tag": "xsimd::sse2", "flags": [], "bits": 0},
    {"name": "scalar_avx2fma", "tag": "xsimd::fma3<xsimd::avx2>", "flags": ["-mavx2", "-mfma"], "bits": 0},
]


def arch(name):
    for a in archs() + SCALAR_TARGETS:
        if a["name"] == name:
            return a
    raise KeyError(name)


_tree = None


def tree_hash():
    """sha256 over every file under /repo/include (path + bytes)."""
    global _tree
    if _tree is None:
        h = hashlib.sha256()
        root = os.path.join(REPO, "include")
        for d, dirs, files in sorted(os.walk(root)):
            dirs.sort()
            for f in sorted(files):
                p = os.path.join(d, f)
                h.update(os.path.relpath(p, root).encode())
                h.update(b"\0")
                with open(p, "rb") as fh:
                    h.update(fh.read())
                h.update(b"\0")
        _tree = h.hexdigest()[:20]
    return _tree


_cid = {}


def compiler_id(cc):
    if cc not in _cid:
        _cid[cc] = subprocess.run([cc, "--version"], capture_output=True, text=True).stdout.split("\n")[0]
    return _cid[cc]


def _hash_files(paths):
    h = hashlib.sha256()
    for p in paths:
        with open(p, "rb") as fh:
            h.update(fh.read())
        h.update(b"\0")
    return h.hexdigest()


def _key(parts):
    return hashlib.sha256("\x1f".join(parts).encode()).hexdigest()[:24]


def _run_compile(cmd, out, log):
    tmp = out + ".tmp%d" % os.getpid()
    cmd = [c if c != "@OUT@" else tmp for c in cmd]
    t0 = time.time()
    r = subprocess.run(cmd, capture_output=True, text=True)
    with open(log, "w") as fh:
        fh.write(" ".join(cmd) + "\n" + r.stdout + r.stderr + "\nrc=%d wall=%.1f\n" % (r.returncode, time.time() - t0))
    if r.returncode != 0:
        if os.path.exists(tmp):
            os.unlink(tmp)
        return False
    os.replace(tmp, out)
    return True


SHIM_DEPS = ["shim/abi.h", "shim/shim_common.hpp"]

_CAPS = None
CAP_TYPES = {"i8": "int8_t", "u8": "uint8_t", "i16": "int16_t", "u16": "uint16_t", "i32": "int32_t", "u32": "uint32_t",
             "i64": "int64_t", "u64": "uint64_t", "f32": "float", "f64": "double"}


def caps():
    global _CAPS
    if _CAPS is None:
        p = os.path.join(VERIF, "caps.json")
        _CAPS = json.load(open(p)) if os.path.exists(p) else {}
    return _CAPS


def caps_header(target):
    """frozen capability matrix (caps.json) rendered as a force-included header for one target"""
    c = caps()
    names = sorted(c)
    lines = ["#pragma once", "#include <cstdint>", "enum xsv_cap_id { " + ", ".join("CAP_" + n for n in names) + (", " if names else "") + "CAP__END };",
             "template <int C, class T> struct xsv_cap { static constexpr bool value = false; };"]
    for n in names:
        for ty, ok in sorted(c[n].get(target, {}).items()):
            if ok:
                lines.append("template <> struct xsv_cap<CAP_%s, %s> { static constexpr bool value = true; };" % (n, CAP_TYPES[ty]))
    txt = "\n".join(lines) + "\n"
    h = hashlib.sha256(txt.encode()).hexdigest()[:16]
    d = os.path.join(CACHE, "caps")
    os.makedirs(d, exist_ok=True)
    path = os.path.join(d, "caps_%s_%s.h" % (target.replace("<", "_").replace(">", "_"), h))
    if not os.path.exists(path):
        with open(path + ".tmp%d" % os.getpid(), "w") as f:
            f.write(txt)
        os.replace(path + ".tmp%d" % os.getpid(), path)
    return path


def shim_job(family, target, cc="g++", extra=()):
    """returns (out_path, cmd, log) for one shim .so"""
    a = arch(target)
    src = os.path.join(VERIF, "shim", "shim_%s.cpp" % family)
    deps = [src] + [os.path.join(VERIF, d) for d in SHIM_DEPS]
    extra_hdr = os.path.join(VERIF, "shim", "shim_%s.hpp" % family)
    if os.path.exists(extra_hdr):
        deps.append(extra_hdr)
    flags = ["-std=c++17", "-O2", "-g0", "-w", "-fPIC", "-shared", "-fvisibility=hidden",
             "-D" + HOOK_GUARD, "-DXSV_ARCH=" + a["tag"], "-DXSV_NAME=" + a["name"],
             "-I" + os.path.join(REPO, "include"), "-I" + os.path.join(VERIF, "shim")] + a["flags"] + list(extra)
    if a in archs():
        flags += ["-include", caps_header(target)]
    if os.environ.get("XSV_COVERAGE") and cc == "g++":
        # tools/coverage.py: line counts of the xsimd headers as executed by a check (never set by a registered command)
        # XSIMD_INLINE is always_inline: inlined before the instrumentation pass, such bodies lose their line counts.  The coverage
        # build therefore pre-defines the macro as plain `inline` (and the include guard of xsimd_inline.hpp) and switches inlining off.
        flags = [f for f in flags if f != "-O2"] + ["-O1", "-fno-early-inlining", "-fno-inline", "-DXSIMD_INLINE_HPP", "-DXSIMD_INLINE=inline",
                                                    "--coverage", "-fprofile-update=atomic"]
    key = _key([tree_hash(), _hash_files(deps), " ".join(flags), compiler_id(cc), "shim"])
    d = os.path.join(CACHE, tree_hash())
    out = os.path.join(d, "shim_%s_%s_%s.so" % (family, target, key))
    cmd = [cc] + flags + [src, "-o", "@OUT@"]
    return out, cmd, out + ".log"


def build_many(jobs, what="objects", fatal=True):
    """jobs: list of (out, cmd, log).  Builds missing ones in parallel.  Returns list of failed outs."""
    todo = [j for j in jobs if not os.path.exists(j[0])]
    if not todo:
        return []
    for j in todo:
        os.makedirs(os.path.dirname(j[0]), exist_ok=True)
    t0 = time.time()
    failed = []
    with ThreadPoolExecutor(max_workers=JOBS) as ex:
        for j, ok in zip(todo, ex.map(lambda j: _run_compile(j[1], j[0], j[2]), todo)):
            if not ok:
                failed.append(j)
    sys.stderr.write("[build] %d %s in %.1fs (%d failed)\n" % (len(todo), what, time.time() - t0, len(failed)))
    if failed and fatal:
        for j in failed[:3]:
            sys.stderr.write("[build] FAILED %s\n%s\n" % (j[0], open(j[2]).read()[-3000:]))
        raise BuildError("%d %s failed to build" % (len(failed), what))
    return failed


class BuildError(Exception):
    pass


def build_shims(families, targets=None, cc="g++"):
    """returns {family: {target: so_path}}"""
    jobs = []
    res = {}
    for f in families:
        res[f] = {}
        tl = [a["name"] for a in SCALAR_TARGETS] if f == "scalar" else (targets or [a["name"] for a in archs()])
        for t in tl:
            j = shim_job(f, t, cc)
            res[f][t] = j[0]
            jobs.append(j)
    build_many(jobs, "shims[%s]" % ",".join(families))
    prune()
    return res


DRIVER_DEPS = ["shim/abi.h"]


def driver_job(name, uses_xsimd=False, libs=("-lrapidcheck", "-ldl", "-lmpfr", "-lgmp", "-lpthread"), extra=(), cc="g++"):
    src = os.path.join(VERIF, "drivers", name + ".cpp")
    deps = [src] + [os.path.join(VERIF, d) for d in DRIVER_DEPS]
    for sub in ("drivers", "oracle"):
        dd = os.path.join(VERIF, sub)
        for f in sorted(os.listdir(dd)):
            if f.endswith((".hpp", ".h")):
                deps.append(os.path.join(dd, f))
    flags = ["-std=c++17", "-O2", "-g0", "-w", "-ffp-contract=off", "-fno-fast-math", "-rdynamic",
             "-I" + os.path.join(VERIF, "shim"), "-I" + os.path.join(VERIF, "drivers"), "-I" + os.path.join(VERIF, "oracle")] + list(extra)
    parts = [_hash_files(deps), " ".join(flags), " ".join(libs), compiler_id(cc), "driver"]
    if uses_xsimd:
        flags += ["-D" + HOOK_GUARD, "-I" + os.path.join(REPO, "include")]
        parts.append(tree_hash())
        d = os.path.join(CACHE, tree_hash())
    else:
        d = os.path.join(CACHE, "drivers")
    key = _key(parts)
    out = os.path.join(d, "%s_%s" % (name, key))
    cmd = [cc] + flags + [src, "-o", "@OUT@"] + list(libs)
    return out, cmd, out + ".log"


def build_driver(name, **kw):
    j = driver_job(name, **kw)
    build_many([j], "driver " + name)
    return j[0]


def prune(keep=3, min_age=3 * 3600):
    """keep the `keep` most recently used tree directories, and never remove one used in the last `min_age` seconds
    (another check may be running against a different tree at the same time)"""
    if not os.path.isdir(CACHE):
        return
    cur = tree_hash()
    dirs = [d for d in os.listdir(CACHE) if d not in ("drivers", "caps") and os.path.isdir(os.path.join(CACHE, d))]
    if cur in dirs:
        os.utime(os.path.join(CACHE, cur))
    dirs.sort(key=lambda d: os.path.getmtime(os.path.join(CACHE, d)), reverse=True)
    now = time.time()
    for d in dirs[keep:]:
        if d != cur and now - os.path.getmtime(os.path.join(CACHE, d)) > min_age:
            shutil.rmtree(os.path.join(CACHE, d), ignore_errors=True)


def fuzz_job(name, target, cc="clang++", defs=()):
    """libFuzzer + ASan binary of fuzz/<name>.cpp for one target (includes xsimd: keyed by the tree)"""
    a = arch(target)
    src = os.path.join(VERIF, "fuzz", name + ".cpp")
    flags = ["-std=c++17", "-O1", "-g", "-w", "-fsanitize=fuzzer,address", "-D" + HOOK_GUARD, "-DXSV_ARCH=" + a["tag"], "-I" + os.path.join(REPO, "include")] + a["flags"] + list(defs)
    key = _key([tree_hash(), _hash_files([src]), " ".join(flags), compiler_id(cc), "fuzz"])
    out = os.path.join(CACHE, tree_hash(), "%s_%s_%s" % (name, target, key))
    return out, [cc] + flags + [src, "-o", "@OUT@"], out + ".log"


def build_fuzzers(name, targets, defs=()):
    jobs = {t: fuzz_job(name, t, defs=defs) for t in targets}
    build_many(list(jobs.values()), "fuzzers[%s]" % name)
    return {t: j[0] for t, j in jobs.items()}
