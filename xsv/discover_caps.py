"""Discover which (target, operation, element type) combinations the library accepts (DESIGN 2.2).

A combination is accepted when a one-call probe compiles with that target's flags AND runs without
tripping an assert.  The result is frozen in caps.json (committed); shims are generated from it.
Run:  python3 -m xsv.discover_caps        (about 3-5 minutes on 16 cores)
"""
import json
import os
import subprocess
import sys
import tempfile
from concurrent.futures import ThreadPoolExecutor

sys.path.insert(0, os.path.dirname(os.path.dirname(os.path.abspath(__file__))))
from xsv import build  # noqa: E402

TYPES = {"i8": "int8_t", "u8": "uint8_t", "i16": "int16_t", "u16": "uint16_t", "i32": "int32_t", "u32": "uint32_t",
         "i64": "int64_t", "u64": "uint64_t", "f32": "float", "f64": "double"}

# capability name -> probe body (uses T, A, B, BB, N = B::size, x, y already defined)
PROBES = {
    "reduce_f": "sinkv(xs::reduce([](B const& p, B const& q) { return p + q; }, x));",
    "swizzle_dyn": "xs::batch<xs::as_unsigned_integer_t<T>, A> idx(0); sink(xs::swizzle(x, idx));",
    "swizzle_const": "sink(xs::swizzle(x, xs::make_batch_constant<xs::as_unsigned_integer_t<T>, rev, A>()));",
    "swizzle_const_mix": "sink(xs::swizzle(x, xs::make_batch_constant<xs::as_unsigned_integer_t<T>, mixs, A>()));",
    "swizzle_const_pairs": "sink(xs::swizzle(x, xs::make_batch_constant<xs::as_unsigned_integer_t<T>, prs, A>()));",
    "swizzle_const_split1": "sink(xs::swizzle(x, xs::make_batch_constant<xs::as_unsigned_integer_t<T>, sph<1>, A>()));",
    "shuffle": "sink(xs::shuffle(x, y, xs::make_batch_constant<xs::as_unsigned_integer_t<T>, mix, A>()));",
    "zip_lo": "sink(xs::zip_lo(x, y));",
    "zip_hi": "sink(xs::zip_hi(x, y));",
    "slide_left": "sink(xs::slide_left<sizeof(T)>(x));",
    "slide_right": "sink(xs::slide_right<sizeof(T)>(x));",
    "rotate_left": "sink(xs::rotate_left<1>(x));",
    "rotate_right": "sink(xs::rotate_right<1>(x));",
    "extract_pair": "sink(xs::extract_pair(x, y, 1));",
    "insert": "sink(xs::insert(x, T(3), xs::index<1>()));",
    "transpose": "B m[N]; for (size_t i = 0; i < N; ++i) m[i] = x; xs::transpose(m, m + N); sink(m[0]);",
    "compress": "sink(xs::compress(x, x > y));",
    "expand": "sink(xs::expand(x, x > y));",
    "select_const": "sink(xs::select(xs::make_batch_bool_constant<T, alt, A>(), x, y));",
    "gather": "T buf[128] = {}; xs::batch<xs::as_integer_t<T>, A> idx(1); sink(B::gather(buf, idx));",
    "scatter": "T buf[128] = {}; xs::as_integer_t<T> ia[N]; for (size_t i = 0; i < N; ++i) ia[i] = (xs::as_integer_t<T>)i; auto idx = xs::batch<xs::as_integer_t<T>, A>::load_unaligned(ia); x.scatter(buf, idx); sinkv(buf[1]);",
}

TEMPLATE = r"""
#include <xsimd/xsimd.hpp>
#include <cstdio>
#include <cstdint>
namespace xs = xsimd;
using A = XSV_ARCH;
struct prs { static constexpr unsigned get(unsigned i, unsigned n) { return (n / 2 - 1 - i / 2) * 2 + i % 2; } };
template <unsigned N> struct sph { static constexpr unsigned get(unsigned i, unsigned) { return i >= N ? (i % 2) : i + N; } };
struct rev { static constexpr unsigned get(unsigned i, unsigned n) { return n - 1 - i; } };
struct mixs { static constexpr unsigned get(unsigned i, unsigned n) { return (i * 5 + 3) % n; } };
struct mix { static constexpr unsigned get(unsigned i, unsigned n) { return (i * 3 + 1) % (2 * n); } };
struct alt { static constexpr bool get(unsigned i, unsigned) { return i % 2 == 0; } };
template <class V> __attribute__((noinline)) void sink(V const& v) { volatile auto t = v.get(0); (void)t; }
template <class V> __attribute__((noinline)) void sinkv(V v) { volatile V t = v; (void)t; }
int main()
{
    using T = @T@;
    using B = xs::batch<T, A>;
    using BB = xs::batch_bool<T, A>;
    constexpr size_t N = B::size;
    T ax[N], ay[N];
    for (size_t i = 0; i < N; ++i) { ax[i] = T(i + 1); ay[i] = T(2 * i); }
    B x = B::load_unaligned(ax), y = B::load_unaligned(ay);
    @BODY@
    std::puts("OK");
    return 0;
}
"""


def probe(job):
    cap, tname, target, tmpdir = job
    a = build.arch(target)
    src = os.path.join(tmpdir, "%s_%s_%s.cpp" % (cap, tname, target))
    exe = src[:-4]
    with open(src, "w") as f:
        f.write(TEMPLATE.replace("@T@", TYPES[tname]).replace("@BODY@", PROBES[cap]))
    cmd = ["g++", "-std=c++17", "-O1", "-w", "-DXSV_ARCH=" + a["tag"], "-I" + os.path.join(build.REPO, "include")] + a["flags"] + [src, "-o", exe]
    r = subprocess.run(cmd, capture_output=True, text=True)
    ok = False
    why = ""
    if r.returncode != 0:
        why = "compile"
    else:
        try:
            rr = subprocess.run([exe], capture_output=True, text=True, timeout=20)
            ok = rr.returncode == 0 and "OK" in rr.stdout
            if not ok:
                why = "run rc=%d" % rr.returncode
        except subprocess.TimeoutExpired:
            why = "timeout"
    for p in (src, exe):
        if os.path.exists(p):
            os.unlink(p)
    return cap, tname, target, ok, why


def main():
    only = sys.argv[1:]
    caps_path = os.path.join(build.VERIF, "caps.json")
    caps = json.load(open(caps_path)) if os.path.exists(caps_path) else {}
    with tempfile.TemporaryDirectory(prefix="xsvcaps") as tmp:
        jobs = []
        for cap in PROBES:
            if only and cap not in only:
                continue
            for tname in TYPES:
                for a in build.archs():
                    jobs.append((cap, tname, a["name"], tmp))
        print("probing %d combinations" % len(jobs))
        with ThreadPoolExecutor(max_workers=16) as ex:
            for cap, tname, target, ok, why in ex.map(probe, jobs):
                caps.setdefault(cap, {}).setdefault(target, {})[tname] = 1 if ok else 0
    json.dump(caps, open(caps_path, "w"), indent=0, sort_keys=True)
    for cap in sorted(caps):
        rej = sum(1 for t in caps[cap] for ty in caps[cap][t] if not caps[cap][t][ty])
        print("%-18s rejected %d / %d" % (cap, rej, sum(len(caps[cap][t]) for t in caps[cap])))


if __name__ == "__main__":
    main()
