"""MANIFEST.setup_cmd: build the framework offline and warm the build cache for /repo's current tree."""
import os
import sys

sys.path.insert(0, os.path.dirname(os.path.dirname(os.path.abspath(__file__))))
from xsv import build, props  # noqa: E402


def main():
    fams = set(["math", "memas"])
    for cfg in list(props.ELEM.values()) + list(props.SIMPLE.values()):
        fams.update(cfg["families"])
    build.build_shims(sorted(fams))
    build.build_driver("d_elem")
    for cfg in props.SIMPLE.values():
        build.build_driver(cfg["driver"], **cfg.get("driver_kw", {}))
    build.build_driver("d_alloc", uses_xsimd=True, extra=["-march=native", "-DXSIMD_WITH_EMULATED=1"])
    build.build_driver("d_alloc", uses_xsimd=True, extra=["-march=native", "-DXSIMD_WITH_EMULATED=1", "-fsanitize=address", "-fno-omit-frame-pointer", "-g"])
    build.build_driver("d_cplx")
    build.build_shims(["cplx"])
    build.build_fuzzers("fuzz_mem", props.FUZZ_TARGETS)
    build.build_fuzzers("fuzz_lanes", props.FUZZ_TARGETS, ["-DXSV_ORACLE=13"])
    build.build_fuzzers("fuzz_lanes", props.FUZZ_TARGETS, ["-DXSV_ORACLE=14"])
    for f in getattr(props, "SETUP_EXTRA", []):
        f()
    print("setup ok")


if __name__ == "__main__":
    main()
