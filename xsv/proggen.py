"""Generated-program engine (DESIGN 2.4 d): the generated value is a C++ translation unit of checker calls.

A record is (kind, type, values...) rendered as one call into prog/prog_common.hpp; every record prints its own verdict
line, so a failing record is already isolated; a TU that does not compile is bisected down to the offending records
(reported as WARNING capability-lost, never as a violation, never silently)."""
import hashlib
import json
import os
import random
import re
import subprocess
import sys
import time
from concurrent.futures import ThreadPoolExecutor

from . import build

CT = {"i8": "int8_t", "u8": "uint8_t", "i16": "int16_t", "u16": "uint16_t", "i32": "int32_t", "u32": "uint32_t", "i64": "int64_t", "u64": "uint64_t",
      "f32": "float", "f64": "double"}
UT = {"i8": "uint8_t", "u8": "uint8_t", "i16": "uint16_t", "u16": "uint16_t", "i32": "uint32_t", "u32": "uint32_t", "i64": "uint64_t", "u64": "uint64_t",
      "f32": "uint32_t", "f64": "uint64_t"}
BYTES = {"i8": 1, "u8": 1, "i16": 2, "u16": 2, "i32": 4, "u32": 4, "i64": 8, "u64": 8, "f32": 4, "f64": 8}
INT_TYPES = ["i8", "u8", "i16", "u16", "i32", "u32", "i64", "u64"]


def lanes(target, ty):
    return build.arch(target)["bits"] // 8 // BYTES[ty]


def cap(name, target, ty):
    return bool(build.caps().get(name, {}).get(target, {}).get(ty, 0))


def lit(ty, v):
    """C++ literal of integer value v for element type ty"""
    b = BYTES[ty] * 8
    if ty.startswith("u"):
        v &= (1 << b) - 1
        return "%dull" % v if b == 64 else "%du" % v
    v = ((v + (1 << (b - 1))) % (1 << b)) - (1 << (b - 1))
    if b == 64:
        return "(-9223372036854775807ll - 1)" if v == -(1 << 63) else "%dll" % v
    return "(%s)%d" % (CT[ty], v) if v >= 0 else "(%s)(%d)" % (CT[ty], v)


class Record:
    __slots__ = ("kind", "ty", "vals", "aux", "nontrivial", "rid")

    def __init__(self, kind, ty, vals, aux=None, nontrivial=True):
        self.kind, self.ty, self.vals, self.aux, self.nontrivial = kind, ty, list(vals), aux, nontrivial
        self.rid = -1

    def key(self):
        return "%s|%s|%s|%s" % (self.kind, self.ty, ",".join(map(str, self.vals)), self.aux)

    def render(self, seed):
        t, u = CT[self.ty], UT[self.ty]
        k = self.kind
        if k in ("swizzle", "shuffle", "swizzle_vs_dynamic", "shuffle_vs_dynamic"):
            idx = ", ".join("%d" % v for v in self.vals)
            return "check_%s<%s, %s, %s>(%d, %dull);" % (k, t, u, idx, self.rid, seed)
        if k == "const_values":
            return "check_const_values<%s, %s>(%d);" % (t, ", ".join(lit(self.ty, v) for v in self.vals), self.rid)
        if k == "bool_values":
            return "check_bool_values<%s, %s>(%d);" % (t, ", ".join("true" if v else "false" for v in self.vals), self.rid)
        if k == "select_const":
            return "check_select_const<%s, %s>(%d, %dull);" % (t, ", ".join("true" if v else "false" for v in self.vals), self.rid, seed)
        if k == "generator":
            return "check_generator<%s, %s>(%d);" % (t, self.aux, self.rid)
        if k == "bool_generator":
            return "check_bool_generator<%s, %s>(%d);" % (t, self.aux, self.rid)
        if k == "const_op":
            n = len(self.vals) // 2
            a = "xs::batch_constant<%s, A, %s>{}" % (t, ", ".join(lit(self.ty, v) for v in self.vals[:n]))
            b = "xs::batch_constant<%s, A, %s>{}" % (t, ", ".join(lit(self.ty, v) for v in self.vals[n:]))
            op = self.aux
            if op in ("neg", "not", "pos"):
                sym = {"neg": "-", "not": "~", "pos": "+"}[op]
                return "check_const_op<%s>(%d, \"unary %s\", %s, %s, %s%s, [](%s x, %s) { return (%s)(%sx); });" % (t, self.rid, sym, a, b, sym, a, t, t, t, sym)
            return "check_const_op<%s>(%d, \"%s\", %s, %s, %s %s %s, [](%s x, %s y) { return (%s)(x %s y); });" % (t, self.rid, op, a, b, a, op, b, t, t, t, op)
        if k == "bool_op":
            n = len(self.vals) // 2
            a = "xs::batch_bool_constant<%s, A, %s>{}" % (t, ", ".join("true" if v else "false" for v in self.vals[:n]))
            b = "xs::batch_bool_constant<%s, A, %s>{}" % (t, ", ".join("true" if v else "false" for v in self.vals[n:]))
            op = self.aux
            if op in ("!", "~"):
                return "check_bool_op<%s>(%d, \"%s\", %s, %s, %s%s, [](bool x, bool) { return !x; });" % (t, self.rid, op, a, b, op, a)
            cop = {"&&": "&&", "||": "||", "&": "&&", "|": "||", "^": "!="}[op]
            return "check_bool_op<%s>(%d, \"%s\", %s, %s, %s %s %s, [](bool x, bool y) { return x %s y; });" % (t, self.rid, op, a, b, a, op, b, cop)
        raise ValueError(k)


GENERATORS = """
struct g_arange { static constexpr unsigned get(unsigned i, unsigned) { return i; } };
struct g_const7 { static constexpr unsigned get(unsigned, unsigned) { return 7; } };
struct g_reverse { static constexpr unsigned get(unsigned i, unsigned n) { return n - 1 - i; } };
struct g_square { static constexpr unsigned get(unsigned i, unsigned) { return (i * i) % 101; } };
struct g_nminus { static constexpr unsigned get(unsigned i, unsigned n) { return n - i; } };
struct g_alt { static constexpr bool get(unsigned i, unsigned) { return i % 2 == 0; } };
struct g_third { static constexpr bool get(unsigned i, unsigned) { return i % 3 == 1; } };
struct g_last { static constexpr bool get(unsigned i, unsigned n) { return i + 1 == n; } };
"""


def render_tu(records, seed, per_fn=150):
    out = ['#include "prog_common.hpp"', GENERATORS]
    nf = 0
    for i in range(0, len(records), per_fn):
        out.append("static void part%d()\n{" % nf)
        for r in records[i:i + per_fn]:
            out.append("    " + r.render(seed))
        out.append("}")
        nf += 1
    out.append("int main()\n{")
    for i in range(nf):
        out.append("    part%d();" % i)
    out.append('    std::puts("DONE");\n    return 0;\n}')
    return "\n".join(out) + "\n"


def compile_cmd(target, src, exe):
    a = build.arch(target)
    return ["g++", "-std=c++17", "-O1", "-g0", "-w", "-D" + build.HOOK_GUARD, "-DXSV_ARCH=" + a["tag"], "-I" + os.path.join(build.REPO, "include"),
            "-I" + os.path.join(build.VERIF, "prog")] + a["flags"] + [src, "-o", exe]


def build_and_run(target, records, seed, workdir, tag):
    """returns (verdicts {rid: (ok, detail)}, lost [records that do not compile], wall)"""
    t0 = time.time()
    verdicts, lost = {}, []

    def attempt(recs, depth, name):
        if not recs:
            return
        src = os.path.join(workdir, "%s_%s_%s.cpp" % (tag, target, name))
        exe = src[:-4]
        with open(src, "w") as f:
            f.write(render_tu(recs, seed))
        r = subprocess.run(compile_cmd(target, src, exe), capture_output=True, text=True)
        if r.returncode != 0:
            if len(recs) == 1:
                lost.append((recs[0], r.stderr[-400:]))
                return
            if depth > 12:
                lost.extend((x, "bisection depth") for x in recs)
                return
            h = len(recs) // 2
            attempt(recs[:h], depth + 1, name + "a")
            attempt(recs[h:], depth + 1, name + "b")
            return
        try:
            rr = subprocess.run([exe], capture_output=True, text=True, timeout=600)
            outp = rr.stdout
            crashed = rr.returncode != 0 or "DONE" not in outp
        except subprocess.TimeoutExpired:
            outp, crashed = "", True
        for line in outp.splitlines():
            m = re.match(r"V (\d+) ([01]) ?(.*)", line)
            if m:
                verdicts[int(m.group(1))] = (m.group(2) == "1", m.group(3))
        if crashed:
            # the record after the last verdict crashed (assert / fault): isolate by running halves
            missing = [x for x in recs if x.rid not in verdicts]
            if len(recs) == 1:
                verdicts[recs[0].rid] = (False, "the program crashed (assert/fault) while executing this record")
            elif missing:
                h = max(1, len(missing) // 2)
                attempt(missing[:h], depth + 1, name + "c")
                attempt(missing[h:], depth + 1, name + "d")
        for p in (exe,):
            if os.path.exists(p):
                os.unlink(p)

    attempt(records, 0, "all")
    return verdicts, lost, time.time() - t0


def single_record_cpp(target, rec, seed):
    """replay artefact: a plain regression program that bypasses the generator"""
    old = rec.rid
    rec.rid = 0
    body = render_tu([rec], seed)
    rec.rid = old
    cmd = " ".join(compile_cmd(target, "THIS_FILE.cpp", "prog"))
    return "// xsv-replay target=%s\n// compile: %s && ./prog   (prints 'V 0 1' when the record passes)\n// record: %s\n%s" % (target, cmd, rec.key(), body)


# ------------------------------------------------------------------------------------------------ record generators
def swizzle_masks(n, rnd, nrandom, per128, full=True):
    fam = []

    def add(name, m):
        fam.append((name, [x % n for x in m]))
    add("identity", list(range(n)))
    add("reverse", list(range(n - 1, -1, -1)))
    add("dup_even", [(i // 2) * 2 for i in range(n)])
    add("dup_odd", [(i // 2) * 2 + 1 for i in range(n)])
    for k in (range(n) if full else sorted({1 % n, n // 2, n - 1, rnd.randrange(n)})):
        add("rotate", [(i + k) for i in range(n)])
        add("broadcast", [k] * n)
    if per128 < n:
        add("in_lane_reverse", [(i // per128) * per128 + (per128 - 1 - i % per128) for i in range(n)])
        add("in_lane_rotate", [(i // per128) * per128 + (i + 1) % per128 for i in range(n)])
        add("cross_lane_swap", [(i + per128) for i in range(n)])
        add("cross_lane_half_swap", [(i + n // 2) for i in range(n)])
        add("low_lane_everywhere", [i % per128 for i in range(n)])
        add("high_lane_everywhere", [n - per128 + i % per128 for i in range(n)])
    add("pair_swap", [i ^ 1 for i in range(n)])
    add("interleave_halves", [(i // 2) + (n // 2) * (i % 2) for i in range(n)])
    add("one_off_identity", [i if i != n // 2 else (i + 1) % n for i in range(n)])
    add("one_off_reverse", [n - 1 - i if i != 1 else 0 for i in range(n)])
    for _ in range(nrandom):
        add("random", [rnd.randrange(n) for _ in range(n)])
        add("random_in_lane", [(i // per128) * per128 + rnd.randrange(per128) for i in range(n)] if per128 <= n else [rnd.randrange(n) for _ in range(n)])
    return fam


def pair_masks(n, rnd, nrandom, full=True):
    """masks made of (2k, 2k+1) pairs: the only 16-bit constant swizzles avx512f/cd/dq accept (folded to a 32-bit permute)"""
    h = n // 2
    fam = []

    def add(name, pm):
        fam.append((name, [2 * (p % h) + j for p in pm for j in (0, 1)]))
    add("pairs_identity", list(range(h)))
    add("pairs_reverse", list(range(h - 1, -1, -1)))
    for k in (range(h) if full else sorted({1 % h, h // 2, h - 1, rnd.randrange(h)})):
        add("pairs_rotate", [(i + k) for i in range(h)])
        add("pairs_broadcast", [k] * h)
    add("pairs_swap_halves", [(i + h // 2) for i in range(h)])
    add("pairs_in_lane_reverse", [(i // 4) * 4 + 3 - i % 4 for i in range(h)] if h >= 4 else list(range(h)))
    add("pairs_one_off_identity", [i if i != h // 2 else (i + 1) % h for i in range(h)])
    for _ in range(nrandom):
        add("pairs_random", [rnd.randrange(h) for _ in range(h)])
    return fam


def split_high_masks(n):
    """the masks detail::reduce builds (split_high<n/2> ... split_high<1>): kernels special-case them"""
    out = []
    k = n // 2
    while k >= 1:
        out.append(("split_high_%d" % k, [(i % 2) if i >= k else i + k for i in range(n)]))
        k //= 2
    return out


def shuffle_masks(n, rnd, nrandom, per128, full=True):
    fam = []

    def add(name, m):
        fam.append((name, [x % (2 * n) for x in m]))
    add("first_only", list(range(n)))
    add("second_only", list(range(n, 2 * n)))
    add("swizzle_first_rev", list(range(n - 1, -1, -1)))
    add("swizzle_second_rev", list(range(2 * n - 1, n - 1, -1)))
    add("zip_lo", [(i // 2) + n * (i % 2) for i in range(n)])
    add("zip_hi", [n // 2 + (i // 2) + n * (i % 2) for i in range(n)])
    add("select_alt", [i + n * (i % 2) for i in range(n)])
    # shapes a zip detector could mistake for zip_lo / zip_hi: pairs (p, n + p) at even positions p
    add("zip_lookalike_lo", [i if i % 2 == 0 else n + i - 1 for i in range(n)])
    add("zip_lookalike_hi", [(n // 2 + i) % n if i % 2 == 0 else n + (n // 2 + i - 1) % n for i in range(n)])
    add("select_halves", [i + n * (1 if i >= n // 2 else 0) for i in range(n)])
    base = list(fam)
    for name, m in base:  # one-off neighbours of every detector pattern
        for pos in sorted({0, n // 2, n - 1}) if full else [rnd.randrange(n)]:
            mm = list(m)
            mm[pos] = (mm[pos] + 1) % (2 * n)
            add(name + "_oneoff", mm)
            mm = list(m)
            mm[pos] = (mm[pos] + n) % (2 * n)
            add(name + "_othersrc", mm)
    if per128 < n:
        # "shuffle within 128-bit lane" shapes (x in even positions, y in odd ones, indices inside the lane) and neighbours
        for _ in range(max(2, nrandom // 2)):
            m = []
            for i in range(n):
                lane0 = (i // per128) * per128
                src = (i % 2) if per128 == 2 else ((i % per128) >= per128 // 2)
                m.append(lane0 + rnd.randrange(per128) + (n if src else 0))
            add("in_lane_xy", m)
            # neighbours: at every position, the same source but an index taken from another 128-bit lane
            for p in range(n):
                mm = list(m)
                srcoff = n if mm[p] >= n else 0
                other = ((mm[p] - srcoff) + per128 * (1 + rnd.randrange(max(1, n // per128 - 1)))) % n
                mm[p] = srcoff + other
                add("in_lane_xy_oneoff", mm)
    if per128 < n and per128 >= 2:
        # the same in-lane pattern replicated in every 128-bit lane (what vshufps/vshufpd can do), in both orientations:
        # low half of each lane from x and high half from y ("within lane"), or the opposite; with one-off neighbours
        # (index from another lane, other source, second lane differing from the first) at every position
        for orient in ("xy", "yx"):
            for _ in range(max(2, nrandom // 2)):
                pat = [rnd.randrange(per128) for _ in range(per128)]
                m = []
                for i in range(n):
                    j = i % per128
                    from_y = (j % 2 == 1) if per128 == 2 else (j >= per128 // 2)
                    if orient == "yx":
                        from_y = not from_y
                    m.append((i // per128) * per128 + pat[j] + (n if from_y else 0))
                add("rep_lane_" + orient, m)
                for pos in (range(n) if n <= 8 else sorted({0, 1, per128 - 1, per128, n // 2, n - 1, rnd.randrange(n)})):
                    mm = list(m)
                    srcoff = n if mm[pos] >= n else 0
                    mm[pos] = srcoff + ((mm[pos] - srcoff) + per128) % n
                    add("rep_lane_%s_otherlane" % orient, mm)
                    mm = list(m)
                    mm[pos] = (mm[pos] + n) % (2 * n)
                    add("rep_lane_%s_othersrc" % orient, mm)
                    mm = list(m)
                    srcoff = n if mm[pos] >= n else 0
                    lane0 = ((mm[pos] - srcoff) // per128) * per128
                    mm[pos] = srcoff + lane0 + ((mm[pos] - srcoff) - lane0 + 1) % per128
                    add("rep_lane_%s_otherindex" % orient, mm)
    for _ in range(nrandom):
        add("random", [rnd.randrange(2 * n) for _ in range(n)])
        add("random_select", [i + n * rnd.randrange(2) for i in range(n)])
    return fam


def c05_records(target, tier, rnd):
    recs = []
    nrand = 3 if tier == "quick" else 150
    for ty in CT:
        n = lanes(target, ty)
        per128 = max(1, 16 // BYTES[ty])
        if cap("swizzle_const", target, ty) and cap("swizzle_const_mix", target, ty):
            if n <= 4:
                tot = n ** n
                ks = range(tot) if (tier != "quick" or tot <= 16) else sorted(rnd.sample(range(tot), 24))
                for k in ks:
                    m, q = [], k
                    for _ in range(n):
                        m.append(q % n)
                        q //= n
                    recs.append(Record("swizzle", ty, m, "all", nontrivial=m != list(range(n))))
                if tier == "quick" and tot > 16:
                    for name, m in swizzle_masks(n, rnd, 0, per128, full=False):
                        recs.append(Record("swizzle", ty, m, name, nontrivial=name not in ("identity", "reverse", "dup_even", "dup_odd")))
            else:
                for name, m in swizzle_masks(n, rnd, nrand, per128, full=(tier != "quick")):
                    recs.append(Record("swizzle", ty, m, name, nontrivial=name not in ("identity", "reverse", "dup_even", "dup_odd")))
        elif cap("swizzle_const_pairs", target, ty):
            # only (even, even+1) pair masks are accepted (16-bit lanes on avx512f/cd/dq), plus the one reduce mask
            for name, m in pair_masks(n, rnd, nrand + 3, full=(tier != "quick")):
                recs.append(Record("swizzle", ty, m, name, nontrivial=name != "pairs_identity"))
            if cap("swizzle_const_split1", target, ty):
                recs.append(Record("swizzle", ty, split_high_masks(n)[-1][1], "split_high_1"))
        if cap("swizzle_const", target, ty) and cap("swizzle_const_mix", target, ty) and n > 4:
            for name, m in split_high_masks(n):
                recs.append(Record("swizzle", ty, m, name))
        if cap("shuffle", target, ty):
            if n == 2:
                for k in range(16):
                    recs.append(Record("shuffle", ty, [k % 4, k // 4], "all"))
            elif n == 4 and tier != "quick":
                for k in range(8 ** 4):
                    recs.append(Record("shuffle", ty, [(k >> (3 * i)) & 7 for i in range(4)], "all"))
            else:
                for name, m in shuffle_masks(n, rnd, nrand, per128, full=(tier != "quick")):
                    both = any(x < n for x in m) and any(x >= n for x in m)
                    if not both and not (cap("swizzle_const", target, ty) and cap("swizzle_const_mix", target, ty)):
                        continue  # a one-source mask is forwarded to the constant swizzle, which this (target, type) does not accept
                    recs.append(Record("shuffle", ty, m, name, nontrivial=both))
    return recs


def c19_records(target, tier, rnd):
    recs = []
    nrand = 2 if tier == "quick" else 40
    for ty in INT_TYPES:
        n = lanes(target, ty)
        b = BYTES[ty] * 8
        signed = ty.startswith("i")
        lo, hi = (-(1 << (b - 1)), (1 << (b - 1)) - 1) if signed else (0, (1 << b) - 1)
        if signed and b >= 32:
            lo += 1  # batch_constant's own operator-() makes a pack holding MIN ill-formed (overflow in a constant expression): rejected by the compiler, not a lane-semantics matter
        pos = sorted({0, n // 2, n - 1}) if tier == "quick" else list(range(n))
        packs = []
        for k in pos:
            packs.append(("one_hot", [hi if i == k else 0 for i in range(n)]))
            packs.append(("all_but_one", [lo if i == k else (hi - 1) for i in range(n)]))
        packs.append(("alternating", [(-1 if signed else hi) if i % 2 else 1 for i in range(n)]))
        for _ in range(nrand):
            packs.append(("random", [rnd.choice([lo, hi, -1 if signed else hi, 0, 1, rnd.randint(lo, hi), rnd.randint(lo, hi)]) for _ in range(n)]))
        for name, p in packs:
            recs.append(Record("const_values", ty, p, name))
        for g in ("g_arange", "g_const7", "g_reverse", "g_square", "g_nminus"):
            recs.append(Record("generator", ty, [], g, nontrivial=g not in ("g_arange", "g_const7")))
        for g in ("g_alt", "g_third", "g_last"):
            recs.append(Record("bool_generator", ty, [], g, nontrivial=g != "g_alt"))
        # boolean packs
        bpacks = []
        for k in pos:
            bpacks.append([i == k for i in range(n)])
            bpacks.append([i != k for i in range(n)])
        for ph in range(3):
            bpacks.append([(i + ph) % 3 == 0 for i in range(n)])
        for _ in range(nrand):
            bpacks.append([rnd.random() < 0.5 for _ in range(n)])
        for p in bpacks:
            recs.append(Record("bool_values", ty, [int(x) for x in p], "bool"))
            if cap("select_const", target, ty):
                recs.append(Record("select_const", ty, [int(x) for x in p], "select"))
        for _ in range(max(1, nrand // 2)):
            p, q = rnd.choice(bpacks), rnd.choice(bpacks)
            for op in ("&&", "||", "&", "|", "^", "!", "~"):
                recs.append(Record("bool_op", ty, [int(x) for x in p] + [int(x) for x in q], op))
        # arithmetic operators on packs (signed packs small enough not to overflow: that would be UB in a constant expression)
        small = min(11, (1 << (b // 2 - 1)) - 1)
        for _ in range(max(1, nrand // 2)):
            if signed:
                p = [rnd.randint(-small, small) for _ in range(n)]
                q = [rnd.choice([-1, 1]) * rnd.randint(1, small) for _ in range(n)]
            else:
                uh = 255 if b == 16 else hi  # uint16 operands are promoted to int: keep products representable (overflow would be UB in a constant expression)
                p = [rnd.choice([rnd.randint(0, uh), uh, 0, 1]) for _ in range(n)]
                q = [rnd.choice([rnd.randint(1, uh), uh, 1, 2]) for _ in range(n)]
            for op in ("+", "-", "*", "/", "%", "&", "|", "^", "neg", "not"):
                if signed and op in ("neg",) and lo in p:
                    continue
                recs.append(Record("const_op", ty, p + q, op))
    for ty in CT:
        n = lanes(target, ty)
        per128 = max(1, 16 // BYTES[ty])
        if cap("swizzle_const", target, ty) and cap("swizzle_const_mix", target, ty) and cap("swizzle_dyn", target, ty):
            for name, m in swizzle_masks(n, rnd, 2 if tier == "quick" else 20, per128)[:12 if tier == "quick" else 400]:
                recs.append(Record("swizzle_vs_dynamic", ty, m, name, nontrivial=name != "identity"))
            if n > 4:
                for name, m in split_high_masks(n):
                    recs.append(Record("swizzle_vs_dynamic", ty, m, name))
        elif cap("swizzle_const_pairs", target, ty) and cap("swizzle_dyn", target, ty):
            for name, m in pair_masks(n, rnd, 2 if tier == "quick" else 20, full=(tier != "quick")):
                recs.append(Record("swizzle_vs_dynamic", ty, m, name, nontrivial=name != "pairs_identity"))
            if cap("swizzle_const_split1", target, ty):
                recs.append(Record("swizzle_vs_dynamic", ty, split_high_masks(n)[-1][1], "split_high_1"))
        if cap("shuffle", target, ty) and cap("swizzle_dyn", target, ty) and n >= 2:
            ms = shuffle_masks(n, rnd, 2 if tier == "quick" else 30, per128, full=(tier != "quick"))
            if tier == "quick":
                ms = [x for x in ms if x[0].startswith("in_lane_xy")][:2 * n + 4] + [x for x in ms if x[0] in ("rep_lane_xy", "rep_lane_yx")] + rnd.sample(ms, min(len(ms), 8))
            for name, m in ms:
                both = any(x < n for x in m) and any(x >= n for x in m)
                if not both and not (cap("swizzle_const", target, ty) and cap("swizzle_const_mix", target, ty)):
                    continue
                recs.append(Record("shuffle_vs_dynamic", ty, m, name, nontrivial=both))
        if ty.startswith("f") and cap("select_const", target, ty):
            for _ in range(nrand + 2):
                recs.append(Record("select_const", ty, [int(rnd.random() < 0.5) for _ in range(n)], "select"))
    return recs



def c03_records(target, tier, rnd):
    """select(batch_bool_constant, a, b) for every element type: the compile-time form of C03's select clause"""
    recs = []
    for ty in CT:
        if not cap("select_const", target, ty):
            continue
        n = lanes(target, ty)
        masks = []
        if n <= 4:
            masks = [[(m >> i) & 1 for i in range(n)] for m in range(1 << n)]
        else:
            pos = sorted({0, 1, n // 2 - 1, n // 2, n - 2, n - 1}) if tier == "quick" else list(range(n))
            for k in pos:
                masks.append([int(i == k) for i in range(n)])
                masks.append([int(i != k) for i in range(n)])
            masks.append([i & 1 for i in range(n)])
            masks.append([1 - (i & 1) for i in range(n)])
            masks.append([int(i < n // 2) for i in range(n)])
            masks.append([int(i >= n // 2) for i in range(n)])
            for _ in range(2 if tier == "quick" else 24):
                masks.append([int(rnd.random() < 0.5) for _ in range(n)])
        for m in masks:
            recs.append(Record("select_const", ty, m, "select", nontrivial=0 < sum(m) < n))
    return recs

def run(prop, tier, seed, records_fn, outdir, targets=None):
    """returns dict(evaluations, distinct_nontrivial, samples, violations[(target, record, detail)], lost, per_target)"""
    targets = targets or [a["name"] for a in build.archs()]
    os.makedirs(outdir, exist_ok=True)
    jobs = []
    for t in targets:
        rnd = random.Random((seed * 1000003) ^ int(hashlib.sha256(t.encode()).hexdigest()[:8], 16))
        recs = records_fn(t, tier, rnd)
        for i, r in enumerate(recs):
            r.rid = i
        jobs.append((t, recs))
    res = {"evaluations": 0, "violations": [], "lost": [], "per_target": {}, "samples": [], "kinds": {}, "wall": {}}
    distinct = set()

    def work(job):
        t, recs = job
        # split large programs so that one TU stays below ~700 records
        chunks = [recs[i:i + 700] for i in range(0, len(recs), 700)]
        verdicts, lost = {}, []
        wall = 0
        for ci, ch in enumerate(chunks):
            v, l, w = build_and_run(t, ch, seed, outdir, "%s_c%d" % (prop, ci))
            verdicts.update(v)
            lost += l
            wall += w
        return t, recs, verdicts, lost, wall

    with ThreadPoolExecutor(max_workers=build.JOBS) as ex:
        for t, recs, verdicts, lost, wall in ex.map(work, jobs):
            res["per_target"][t] = len(verdicts)
            res["wall"][t] = round(wall, 1)
            res["evaluations"] += len(verdicts)
            for r in recs:
                if r.rid in verdicts:
                    res["kinds"][r.kind] = res["kinds"].get(r.kind, 0) + 1
                    if r.nontrivial:
                        distinct.add(r.key())
                    ok, detail = verdicts[r.rid]
                    if not ok:
                        res["violations"].append((t, r, detail))
                elif not any(r is x[0] for x in lost):
                    res["violations"].append((t, r, "no verdict was produced for this record"))
            for r, err in lost:
                res["lost"].append("WARNING capability-lost %s %s %s %s" % (t, r.kind, r.ty, r.aux))
            if recs and len(res["samples"]) < 30:
                r = recs[len(recs) // 3]
                res["samples"].append({"target": t, "record": r.render(seed)})
    res["distinct_nontrivial"] = len(distinct)
    return res
