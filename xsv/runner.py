"""Check runner (DESIGN 2.7): build -> replay saved cases -> parallel workers -> confirm candidates by
replay -> evidence -> VIOLATION / KNOWN-FINDING lines -> exit code."""
import glob
import hashlib
import json
import os
import random
import subprocess
import sys
import time

from . import build

VERIF = build.VERIF
EVID = os.environ.get("XSV_EVID_DIR", os.path.join(VERIF, "evidence"))
OUT = os.environ.get("XSV_OUT_DIR", os.path.join(VERIF, "out"))
NWORKERS = int(os.environ.get("XSV_WORKERS", "16"))


def log(msg):
    sys.stderr.write("[check] %s\n" % msg)
    sys.stderr.flush()


def load_known(prop):
    p = os.path.join(VERIF, "known_findings.json")
    if not os.path.exists(p):
        return []
    return [e for e in json.load(open(p))["findings"] if prop in e.get("properties", [e.get("property")])]


class Check:
    """One property check built from a shim-family list and a driver."""

    def __init__(self, prop, tier, seed):
        self.prop = prop
        self.tier = tier
        self.seed = seed
        self.t0 = time.time()
        self.outdir = os.path.join(OUT, prop, "%s_%d_%d" % (tier, seed, os.getpid()))
        os.makedirs(self.outdir, exist_ok=True)
        self.known = load_known(prop)
        self.open_classes = sorted({e["class"] for e in self.known if e["status"] == "open"})
        self.violations = []  # confirmed: (record, replay_path)
        self.flaky = []
        self.unreplayable = []
        self.hangs_confirmed = 0
        self.hangs_not_replayed = 0
        self.known_lines = []
        self.notes = []

    # ------------------------------------------------------------------ shims file
    def write_shims(self, shim_map):
        path = os.path.join(self.outdir, "shims.txt")
        with open(path, "w") as f:
            for fam, m in shim_map.items():
                for tgt, so in m.items():
                    bits = build.arch(tgt)["bits"]
                    f.write("%s %s %d %s\n" % (fam, tgt, bits, so))
        self.shims_file = path
        return path

    # ------------------------------------------------------------------ workers
    def run_workers(self, driver, args, nworkers=NWORKERS, budget=None, env=None, timeout=None, tag="w"):
        procs = []
        base_env = dict(os.environ)
        if env:
            base_env.update(env)
        for k in range(nworkers):
            out = os.path.join(self.outdir, "%s%d.json" % (tag, k))
            cmd = [driver, "--prop", self.prop, "--tier", self.tier, "--seed", str(self.seed), "--worker", str(k),
                   "--nworkers", str(nworkers), "--out", out, "--shims", self.shims_file]
            if self.open_classes:
                cmd += ["--known", ",".join(self.open_classes)]
            if budget is not None:
                cmd += ["--budget", str(budget)]
            cmd += list(args) + os.environ.get("XSV_DRIVER_ARGS", "").split()
            e = dict(base_env)
            e["RC_PARAMS"] = "seed=%d max_size=100" % ((self.seed * 64 + k + 1) & 0x7FFFFFFFFFFFFFFF)
            lg = open(os.path.join(self.outdir, "%s%d.log" % (tag, k)), "w")
            procs.append((k, out, subprocess.Popen(cmd, stdout=lg, stderr=subprocess.STDOUT, env=e), lg, cmd))
        results = []
        deadline = time.time() + timeout if timeout else None
        for k, out, p, lg, cmd in procs:
            try:
                rc = p.wait(timeout=max(1, deadline - time.time()) if deadline else None)
            except subprocess.TimeoutExpired:
                p.kill()
                p.wait()
                rc = -9
                self.notes.append("worker %d stopped at the time budget (inconclusive for its remaining groups)" % k)
            lg.close()
            data = None
            if os.path.exists(out):
                try:
                    data = json.load(open(out))
                except Exception as ex:  # truncated write
                    data = None
            if data is None:
                tail = open(os.path.join(self.outdir, "%s%d.log" % (tag, k))).read()[-2000:]
                raise HarnessError("worker %d of %s produced no result (rc=%s)\n%s\n%s" % (k, driver, rc, " ".join(cmd), tail))
            if rc not in (0, 1, 3, -9):
                tail = open(os.path.join(self.outdir, "%s%d.log" % (tag, k))).read()[-2000:]
                raise HarnessError("worker %d of %s failed rc=%s\n%s\n%s" % (k, driver, rc, " ".join(cmd), tail))
            data["_rc"] = rc
            results.append(data)
        return results

    # ------------------------------------------------------------------ replay
    def replay_tokens(self, rec):
        """argv tokens after --replay-case for an elem-style record"""
        if rec.get("kind", "elem") in ("elem", "elem_c13", "red", "move", "mem", "math", "cplx", "cpuid", "alloc"):
            return [rec["op"], rec["type"], rec.get("target", "*"), str(rec.get("imm", [0])[0])] + list(rec["inputs"])
        return ["json", json.dumps(rec)]

    def replay(self, driver, rec, extra=()):
        cmd = [driver, "--prop", rec.get("property", self.prop), "--shims", self.shims_file, "--tier", self.tier]
        if self.open_classes:
            cmd += ["--known", ",".join(self.open_classes)]
        cmd += list(extra) + ["--replay-case"] + self.replay_tokens(rec)
        try:
            # a replay executes one case: the no-return watchdog of the driver may fire after 3 s of CPU time there (still ~10^5 x any call)
            r = subprocess.run(cmd, capture_output=True, text=True, timeout=120, env=dict(os.environ, XSV_HANG_SECONDS="3"))
        except subprocess.TimeoutExpired:
            return 1, "timeout"
        return r.returncode, r.stdout + r.stderr

    def confirm(self, driver, rec, extra=()):
        """replay three times from the saved case (fresh process each); violation only if all fail"""
        fails = 0
        last = ""
        for _ in range(3):
            rc, out = self.replay(driver, rec, extra)
            last = out
            if rc == 2:
                raise HarnessError("replay harness error: " + out[-1500:])
            if rc == 0 and "REPLAY-SKIP" in out:
                raise HarnessError("the replay did not run the recorded case (no matching operation/type/target): " + out[-500:])
            if rc != 0:
                fails += 1
        return fails == 3, fails, last

    def save_violation(self, rec):
        d = os.path.join(OUT, "violations", self.prop)
        os.makedirs(d, exist_ok=True)
        h = hashlib.sha256(json.dumps(rec, sort_keys=True).encode()).hexdigest()[:12]
        p = os.path.join(d, "%s_%s_%s_%s.json" % (rec.get("op", "case"), rec.get("type", ""), rec.get("target", ""), h))
        p = p.replace("<", "_").replace(">", "_")
        with open(p, "w") as f:
            json.dump(rec, f, indent=1)
        return p

    def handle_candidates(self, driver, results, extra=()):
        cands = []
        for r in results:
            cands += r.get("violations", [])
        # group by (op,type): confirm up to two targets per group, list the others as "also_failing_on"
        groups = {}
        for rec in cands:
            groups.setdefault((rec.get("op"), rec.get("type")), []).append(rec)
        for key in sorted(groups, key=lambda k: (str(k[0]), str(k[1]))):
            recs = groups[key]
            tg = sorted({r.get("target") for r in recs})
            done = 0
            for rec in recs:
                if done >= 2 or len(self.violations) >= 80:
                    break
                if str(rec.get("why", "")).startswith("no return:") and self.hangs_confirmed >= 4:
                    # every replay of a call that does not return costs seconds of CPU: four confirmed ones decide the check,
                    # the others are listed without being replayed
                    self.hangs_not_replayed += 1
                    continue
                rec.setdefault("property", self.prop)
                rec["also_failing_on"] = tg
                try:
                    ok, fails, out = self.confirm(driver, rec, extra)
                except HarnessError as e:
                    # the worker saw a failure that the replay path cannot re-run: never a silent pass (finish() raises
                    # unless other candidates were confirmed), never a violation on its own
                    self.unreplayable.append((rec, str(e)))
                    done += 1
                    continue
                if ok:
                    self.violations.append((rec, self.save_violation(rec)))
                    done += 1
                    if str(rec.get("why", "")).startswith("no return:"):
                        self.hangs_confirmed += 1
                else:
                    self.flaky.append({"case": rec, "replay_failures": fails})
                    if fails == 0:
                        # failed inside the worker, passes deterministically when replayed from its record: the record does not
                        # describe the case (a harness defect), not a flaky run.  Never a silent pass.
                        self.unreplayable.append((rec, "fails in the worker, passes 3/3 when replayed from its record"))

        if self.hangs_not_replayed:
            n = "%d more candidates of the kind 'the call does not return' were not replayed (four confirmed ones decide the check)" % self.hangs_not_replayed
            self.notes = [x for x in self.notes if "were not replayed (four confirmed" not in x] + [n]

    def replay_saved(self, driver, extra=()):
        """regression tier: every file under replay/<prop>/ must pass"""
        n = 0
        for p in sorted(glob.glob(os.path.join(VERIF, "replay", self.prop, "*.json"))):
            rec = json.load(open(p))
            rc, out = self.replay(driver, rec, extra)
            n += 1
            if rc == 2:
                raise HarnessError("replay harness error on %s: %s" % (p, out[-1500:]))
            if rc != 0:
                ok, fails, last = self.confirm(driver, rec, extra)
                if ok:
                    # report what fails now (the saved record describes the failure it was saved for)
                    now = None
                    for line in last.splitlines():
                        if line.startswith("REPLAY-FAIL {"):
                            try:
                                now = json.loads(line[len("REPLAY-FAIL "):])
                            except ValueError:
                                now = None
                    self.violations.append((now or rec, p))
        return n

    # ------------------------------------------------------------------ known findings
    def known_witnesses(self, driver, extra=()):
        """evaluate the witness of every open finding: print KNOWN-FINDING if it still fails"""
        for e in self.known:
            if e["status"] != "open":
                continue
            w = e.get("witness_by_property", {}).get(self.prop, e.get("witness"))
            if not w:
                continue
            saved = self.open_classes
            self.open_classes = []  # judge the witness without the exclusion
            try:
                rc, out = self.replay(driver, dict(w, property=self.prop), extra)
            finally:
                self.open_classes = saved
            if rc == 1:
                self.known_lines.append("KNOWN-FINDING: property=%s %s: %s" % (self.prop, e["key"], e["what"]))
            elif rc == 0:
                self.notes.append("open finding %s: its witness no longer fails on this tree" % e["key"])

    # ------------------------------------------------------------------ evidence
    def merge(self, results):
        m = {"evaluations": 0, "executions": 0, "lane_checks": 0, "skipped_lanes": 0, "nontrivial_cases": 0, "distinct_nontrivial": 0,
             "known_hits": 0, "classes": {}, "per_target": {}, "per_group": {}, "known_by_class": {}, "samples": [], "notes": [], "maxima": {},
             "distinct_capped": False, "exhaustive": None}
        for r in results:
            for k in ("evaluations", "executions", "lane_checks", "skipped_lanes", "nontrivial_cases", "distinct_nontrivial", "known_hits"):
                m[k] += r.get(k, 0)
            for k in ("classes", "per_target", "per_group", "known_by_class"):
                for a, b in r.get(k, {}).items():
                    m[k][a] = m[k].get(a, 0) + b
            for a, b in r.get("maxima", {}).items():
                if a not in m["maxima"] or b["v"] > m["maxima"][a]["v"]:
                    m["maxima"][a] = b
            m["samples"] += r.get("samples", [])
            m["notes"] += r.get("notes", [])
            m["distinct_capped"] = m["distinct_capped"] or r.get("distinct_capped", False)
        return m

    def write_evidence(self, merged, level, rule, assumptions, extra_cov=None, exhaustive=False):
        os.makedirs(EVID, exist_ok=True)
        rnd = random.Random(self.seed)
        samples = merged["samples"]
        if len(samples) > 40:
            samples = samples[:10] + rnd.sample(samples[10:-10], 20) + samples[-10:]
        cov = {
            "evaluations": int(merged["evaluations"]),
            "distinct_nontrivial": int(merged["distinct_nontrivial"]),
            "rule": rule + (" [distinct count capped per worker: reported value is a lower bound]" if merged.get("distinct_capped") else ""),
            "samples": samples,
            "exhaustive": bool(exhaustive),
            "shim_calls": merged["executions"],
            "lanes_judged": merged["lane_checks"],
            "lanes_outside_precondition": merged["skipped_lanes"],
            "nontrivial_cases_total": merged["nontrivial_cases"],
            "class_histogram": merged["classes"],
            "groups_per_target": merged["per_target"],
            "cases_per_group": merged["per_group"],
            "known_finding_hits": merged["known_by_class"],
            "notes": merged["notes"] + self.notes,
            "flaky_suspects": self.flaky,
            "violations_found": [{"replay": p, "op": r.get("op"), "type": r.get("type"), "target": r.get("target"), "why": r.get("why")} for r, p in self.violations],
            "known_findings_reported": self.known_lines,
            "repo_tree": build.tree_hash(),
        }
        if merged.get("maxima"):
            cov["maxima"] = merged["maxima"]
        if extra_cov:
            cov.update(extra_cov)
        ev = {
            "property_id": self.prop,
            "tier": self.tier,
            "seed": int(self.seed),
            "level": level,
            "coverage": cov,
            "assumptions": assumptions,
            "wall_s": round(time.time() - self.t0, 2),
            "violations": len(self.violations),
        }
        with open(os.path.join(EVID, self.prop + ".json"), "w") as f:
            json.dump(ev, f, indent=1)
        return ev

    def finish(self):
        if self.unreplayable and not self.violations:
            rec, msg = self.unreplayable[0]
            raise HarnessError("%d candidate(s) could not be replayed, e.g. %s %s %s: %s" % (len(self.unreplayable), rec.get("op"), rec.get("type"), rec.get("target"), msg))
        for l in self.known_lines:
            print(l)
        for rec, path in self.violations:
            print("VIOLATION property=%s replay=%s" % (self.prop, path))
            log("  %s %s %s lane=%s operands=%s expected=%s got=%s : %s [targets: %s]" % (rec.get("op"), rec.get("type"), rec.get("target"), rec.get("lane"),
                                                                          rec.get("lane_operands"), rec.get("expected"), rec.get("got"), rec.get("why"), ",".join(rec.get("also_failing_on", []))))
        sys.stdout.flush()
        return 1 if self.violations else 0


class HarnessError(Exception):
    pass
