// Integer family: C01 (arithmetic), C07 (bitwise/shift/rotate).  One public xsimd call per entry.
#include "shim_common.hpp"

template <class T>
static void fill_int()
{
    // ---- C01 arithmetic, function forms
    OP2("add", xs::add(x, y));
    OP2("sub", xs::sub(x, y));
    OP2("mul", xs::mul(x, y));
    OP2("div", xs::div(x, y));
    OP2("mod", xs::mod(x, y));
    OP2("min", xs::min(x, y));
    OP2("max", xs::max(x, y));
    OP2("fmin", xs::fmin(x, y));
    OP2("fmax", xs::fmax(x, y));
    OP1("pos", xs::pos(x));
    OP2("sadd", xs::sadd(x, y));
    OP2("ssub", xs::ssub(x, y));
    OP2("avg", xs::avg(x, y));
    OP2("avgr", xs::avgr(x, y));
    OP1("neg", xs::neg(x));
    OP1("abs", xs::abs(x));
    OP1("sign", xs::sign(x));
    OP1("incr", xs::incr(x));
    OP1("decr", xs::decr(x));
    OP2M("incr_if", xs::incr_if(x, m));
    OP2M("decr_if", xs::decr_if(x, m));
    OP3("fma", xs::fma(x, y, z));
    OP3("fms", xs::fms(x, y, z));
    OP3("fnma", xs::fnma(x, y, z));
    OP3("fnms", xs::fnms(x, y, z));
    // ---- operator forms
    OP2("op_add", x + y);
    OP2("op_sub", x - y);
    OP2("op_mul", x * y);
    OP2("op_div", x / y);
    OP2("op_mod", x % y);
    OP1("op_neg", -x);
    OP1("op_pos", +x);
    OP2("op_add_assign", (x += y));
    OP2("op_sub_assign", (x -= y));
    OP2("op_mul_assign", (x *= y));
    OP1("op_preinc", (++x));
    OP1("op_predec", (--x));
    OP1("op_postinc", (x++, x));
    OP1("op_postdec", (x--, x));
    // ---- C07 bitwise
    OP2("and", xs::bitwise_and(x, y));
    OP2("or", xs::bitwise_or(x, y));
    OP2("xor", xs::bitwise_xor(x, y));
    OP2("andnot", xs::bitwise_andnot(x, y));
    OP1("not", xs::bitwise_not(x));
    OP2("op_and", x & y);
    OP2("op_or", x | y);
    OP2("op_xor", x ^ y);
    OP1("op_not", ~x);
    OP2("op_and_assign", (x &= y));
    OP2("op_or_assign", (x |= y));
    OP2("op_xor_assign", (x ^= y));
    // ---- shifts / rotates; k = scalar count, y = per-lane count
    OP1K("shl_s", xs::bitwise_lshift(x, k));
    OP1K("shr_s", xs::bitwise_rshift(x, k));
    OP1K("op_shl_s", x << k);
    OP1K("op_shr_s", x >> k);
    OP1K("op_shl_s_assign", (x <<= k));
    OP1K("op_shr_s_assign", (x >>= k));
    OP2("shl_v", xs::bitwise_lshift(x, y));
    OP2("shr_v", xs::bitwise_rshift(x, y));
    OP2("op_shl_v", x << y);
    OP2("op_shr_v", x >> y);
    OP1K("rotl_s", xs::rotl(x, k));
    OP1K("ipow", xs::pow(x, k));
    OP1K("rotr_s", xs::rotr(x, k));
    OP2("rotl_v", xs::rotl(x, y));
    OP2("rotr_v", xs::rotr(x, y));
}

static void xsv_fill()
{
    fill_int<int8_t>();
    fill_int<uint8_t>();
    fill_int<int16_t>();
    fill_int<uint16_t>();
    fill_int<int32_t>();
    fill_int<uint32_t>();
    fill_int<int64_t>();
    fill_int<uint64_t>();
}
XSV_DEFINE_TABLE
