// Type-erased ABI between the per-architecture shims (which include xsimd) and the
// drivers / oracles (which never do).  See DESIGN.md 2.2.
#ifndef XSV_ABI_H
#define XSV_ABI_H
#include <stddef.h>
#include <stdint.h>

#ifdef __cplusplus
extern "C" {
#endif

struct xsv_args
{
    const void* in[4]; // input images: one register worth of lanes each (or a raw pointer for mem ops)
    void* out[2]; // output images
    int64_t imm[2]; // scalar parameters (shift count, index, mask, ...)
};
typedef void (*xsv_fn)(const struct xsv_args*);

struct xsv_entry
{
    const char* op; // operation name, e.g. "sadd"
    const char* type; // element type name: i8 u8 i16 u16 i32 u32 i64 u64 f32 f64 (c32 c64 for complex)
    uint16_t lanes; // batch<T,A>::size
    uint16_t elem_bytes; // sizeof(T)
    xsv_fn fn;
};

// every shim exports:  const xsv_entry* xsv_table(size_t* n);
// math shims also export: void xsv_tick_ctl(int cmd, long* value) (see shim_common.hpp)
typedef const struct xsv_entry* (*xsv_table_fn)(size_t*);

#ifdef __cplusplus
}
#endif
#endif
