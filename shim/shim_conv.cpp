// Conversion family (C06): batch_cast, to_int/to_float, bitwise_cast (all pairs), broadcast_as.
#include "shim_common.hpp"

template <class From, class To>
static void fill_cast(const char* name)
{
    reg<From>(name, [](const xsv_args* a) { B<From> x = ld<From>(a->in[0]); st<To>(a->out[0], xs::batch_cast<To>(x)); });
}
template <class From, class To>
static void fill_bitcast(const char* name, const char* name_rt)
{
    reg<From>(name, [](const xsv_args* a) { B<From> x = ld<From>(a->in[0]); st<To>(a->out[0], xs::bitwise_cast<To>(x)); });
    reg<From>(name_rt, [](const xsv_args* a) { B<From> x = ld<From>(a->in[0]); st<From>(a->out[0], xs::bitwise_cast<From>(xs::bitwise_cast<To>(x))); });
}
#define ALLTO(M, From)                                              \
    M(From, int8_t, "i8") M(From, uint8_t, "u8") M(From, int16_t, "i16") M(From, uint16_t, "u16") M(From, int32_t, "i32") \
        M(From, uint32_t, "u32") M(From, int64_t, "i64") M(From, uint64_t, "u64") M(From, float, "f32") M(From, double, "f64")
#define BITCAST(From, To, S) fill_bitcast<From, To>("bitcast_" S, "bitcast_rt_" S);

template <class From, class To>
static void fill_broadcast_as(const char* name)
{
    // broadcast_as<To>(From) returns a batch of the default architecture; only meaningful when that is this target.
    // Element-wise view: item i = lane (i mod size) of broadcast_as<To>(in[i]); all lanes of each broadcast must be equal
    // (otherwise the item is poisoned with the bit-complement of lane 0).
    if (!std::is_same<xs::default_arch, A>::value)
        return;
    constexpr size_t n = B<From>::size < 64 / sizeof(To) ? B<From>::size : 64 / sizeof(To);
    xsv_registry().push_back(xsv_entry { name, tn<From>::name(), (uint16_t)n, (uint16_t)sizeof(From), [](const xsv_args* a) {
        const unsigned char* in = reinterpret_cast<const unsigned char*>(a->in[0]);
        unsigned char* out = reinterpret_cast<unsigned char*>(a->out[0]);
        for (size_t i = 0; i < n; ++i)
        {
            From v;
            std::memcpy(&v, in + i * sizeof(From), sizeof v);
            auto r = xs::broadcast_as<To>(v);
            To tmp[decltype(r)::size];
            r.store_unaligned(tmp);
            To pick = tmp[i % decltype(r)::size];
            for (size_t k = 0; k < decltype(r)::size; ++k)
                if (std::memcmp(&tmp[k], &tmp[0], sizeof(To)) != 0)
                {
                    unsigned char* pb = reinterpret_cast<unsigned char*>(&pick);
                    for (size_t b = 0; b < sizeof(To); ++b)
                        pb[b] = (unsigned char)~reinterpret_cast<unsigned char*>(&tmp[0])[b];
                }
            std::memcpy(out + i * sizeof(To), &pick, sizeof(To));
        }
    } });
}

static void xsv_fill()
{
    fill_cast<int32_t, int32_t>("cast_i32"); fill_cast<int32_t, uint32_t>("cast_u32"); fill_cast<int32_t, float>("cast_f32");
    fill_cast<uint32_t, int32_t>("cast_i32"); fill_cast<uint32_t, uint32_t>("cast_u32"); fill_cast<uint32_t, float>("cast_f32");
    fill_cast<float, int32_t>("cast_i32"); fill_cast<float, uint32_t>("cast_u32"); fill_cast<float, float>("cast_f32");
    fill_cast<int64_t, int64_t>("cast_i64"); fill_cast<int64_t, uint64_t>("cast_u64"); fill_cast<int64_t, double>("cast_f64");
    fill_cast<uint64_t, int64_t>("cast_i64"); fill_cast<uint64_t, uint64_t>("cast_u64"); fill_cast<uint64_t, double>("cast_f64");
    fill_cast<double, int64_t>("cast_i64"); fill_cast<double, uint64_t>("cast_u64"); fill_cast<double, double>("cast_f64");
    fill_cast<int8_t, uint8_t>("cast_u8"); fill_cast<uint8_t, int8_t>("cast_i8"); fill_cast<int8_t, int8_t>("cast_i8"); fill_cast<uint8_t, uint8_t>("cast_u8");
    fill_cast<int16_t, uint16_t>("cast_u16"); fill_cast<uint16_t, int16_t>("cast_i16"); fill_cast<int16_t, int16_t>("cast_i16"); fill_cast<uint16_t, uint16_t>("cast_u16");
    reg<float>("to_int", [](const xsv_args* a) { st<int32_t>(a->out[0], xs::to_int(ld<float>(a->in[0]))); });
    reg<double>("to_int", [](const xsv_args* a) { st<int64_t>(a->out[0], xs::to_int(ld<double>(a->in[0]))); });
    reg<int32_t>("to_float", [](const xsv_args* a) { st<float>(a->out[0], xs::to_float(ld<int32_t>(a->in[0]))); });
    reg<int64_t>("to_float", [](const xsv_args* a) { st<double>(a->out[0], xs::to_float(ld<int64_t>(a->in[0]))); });
    ALLTO(BITCAST, int8_t) ALLTO(BITCAST, uint8_t) ALLTO(BITCAST, int16_t) ALLTO(BITCAST, uint16_t) ALLTO(BITCAST, int32_t)
    ALLTO(BITCAST, uint32_t) ALLTO(BITCAST, int64_t) ALLTO(BITCAST, uint64_t) ALLTO(BITCAST, float) ALLTO(BITCAST, double)
    fill_broadcast_as<int32_t, float>("bcast_as_f32"); fill_broadcast_as<uint32_t, float>("bcast_as_f32"); fill_broadcast_as<float, int32_t>("bcast_as_i32");
    fill_broadcast_as<float, uint32_t>("bcast_as_u32"); fill_broadcast_as<int64_t, double>("bcast_as_f64"); fill_broadcast_as<uint64_t, double>("bcast_as_f64");
    fill_broadcast_as<double, int64_t>("bcast_as_i64"); fill_broadcast_as<double, uint64_t>("bcast_as_u64"); fill_broadcast_as<double, float>("bcast_as_f32");
    fill_broadcast_as<float, double>("bcast_as_f64"); fill_broadcast_as<int32_t, int8_t>("bcast_as_i8"); fill_broadcast_as<int32_t, uint16_t>("bcast_as_u16");
    fill_broadcast_as<int64_t, int32_t>("bcast_as_i32"); fill_broadcast_as<uint8_t, uint64_t>("bcast_as_u64"); fill_broadcast_as<int16_t, float>("bcast_as_f32");
}
XSV_DEFINE_TABLE
