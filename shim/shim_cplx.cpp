// Complex family (C16).  Register image of a complex batch: n real lanes followed by n imaginary lanes.
#include "shim_common.hpp"

template <class T>
using CB = xs::batch<std::complex<T>, A>;
template <class T>
inline CB<T> ldc(const void* p)
{
    constexpr size_t n = B<T>::size;
    return CB<T>(ld<T>(p), ld<T>(reinterpret_cast<const T*>(p) + n));
}
template <class T>
inline void stc(void* p, CB<T> const& z)
{
    constexpr size_t n = B<T>::size;
    st<T>(p, z.real());
    st<T>(reinterpret_cast<T*>(p) + n, z.imag());
}
template <class T>
inline void regc(const char* op, xsv_fn fn)
{
    xsv_registry().push_back(xsv_entry { op, tn<std::complex<T>>::name(), (uint16_t)B<T>::size, (uint16_t)(2 * sizeof(T)), fn });
}
#define C1(NAME, EXPR) regc<T>(NAME, [](const xsv_args* a) { CB<T> x = ldc<T>(a->in[0]); (void)x; stc<T>(a->out[0], (EXPR)); })
#define C2(NAME, EXPR) regc<T>(NAME, [](const xsv_args* a) { CB<T> x = ldc<T>(a->in[0]); CB<T> y = ldc<T>(a->in[1]); (void)x; (void)y; stc<T>(a->out[0], (EXPR)); })
#define C3(NAME, EXPR) regc<T>(NAME, [](const xsv_args* a) { CB<T> x = ldc<T>(a->in[0]); CB<T> y = ldc<T>(a->in[1]); CB<T> z = ldc<T>(a->in[2]); stc<T>(a->out[0], (EXPR)); })
// complex -> real results are stored in the real lanes, imaginary lanes zero
#define C1R(NAME, EXPR) regc<T>(NAME, [](const xsv_args* a) { CB<T> x = ldc<T>(a->in[0]); stc<T>(a->out[0], CB<T>((EXPR), B<T>(T(0)))); })

template <class T>
static void fill_cplx()
{
    C2("add", x + y);
    C2("sub", x - y);
    C2("mul", x * y);
    C2("div", x / y);
    // compound assignment, also with the same object on both sides (the operators must not read a member they have
    // already overwritten)
    regc<T>("add_assign", [](const xsv_args* a) { CB<T> x = ldc<T>(a->in[0]); CB<T> y = ldc<T>(a->in[1]); x += y; stc<T>(a->out[0], x); });
    regc<T>("sub_assign", [](const xsv_args* a) { CB<T> x = ldc<T>(a->in[0]); CB<T> y = ldc<T>(a->in[1]); x -= y; stc<T>(a->out[0], x); });
    regc<T>("mul_assign", [](const xsv_args* a) { CB<T> x = ldc<T>(a->in[0]); CB<T> y = ldc<T>(a->in[1]); x *= y; stc<T>(a->out[0], x); });
    regc<T>("div_assign", [](const xsv_args* a) { CB<T> x = ldc<T>(a->in[0]); CB<T> y = ldc<T>(a->in[1]); x /= y; stc<T>(a->out[0], x); });
    regc<T>("add_self", [](const xsv_args* a) { CB<T> x = ldc<T>(a->in[0]); CB<T>& r = x; x += r; stc<T>(a->out[0], x); });
    regc<T>("sub_self", [](const xsv_args* a) { CB<T> x = ldc<T>(a->in[0]); CB<T>& r = x; x -= r; stc<T>(a->out[0], x); });
    regc<T>("mul_self", [](const xsv_args* a) { CB<T> x = ldc<T>(a->in[0]); CB<T>& r = x; x *= r; stc<T>(a->out[0], x); });
    regc<T>("div_self", [](const xsv_args* a) { CB<T> x = ldc<T>(a->in[0]); CB<T>& r = x; x /= r; stc<T>(a->out[0], x); });
    C2("fadd", xs::add(x, y));
    C2("fmul", xs::mul(x, y));
    C3("fma", xs::fma(x, y, z));
    C3("fms", xs::fms(x, y, z));
    C3("fnma", xs::fnma(x, y, z));
    C3("fnms", xs::fnms(x, y, z));
    C1("neg", -x);
    C1("conj", xs::conj(x));
    C1("proj", xs::proj(x));
    C1R("real", xs::real(x));
    C1R("imag", xs::imag(x));
    C1R("norm", xs::norm(x));
    C1R("abs", xs::abs(x));
    C1R("arg", xs::arg(x));
    // polar(r, theta): real inputs taken from the real lanes of in[0], in[1]
    regc<T>("polar", [](const xsv_args* a) { stc<T>(a->out[0], xs::polar(ld<T>(a->in[0]), ld<T>(a->in[1]))); });
    C1("exp", xs::exp(x));
    C1("expm1", xs::expm1(x));
    C1("log", xs::log(x));
    C1("log2", xs::log2(x));
    C1("log10", xs::log10(x));
    C1("sqrt", xs::sqrt(x));
    C1("sin", xs::sin(x));
    C1("cos", xs::cos(x));
    C1("sincos_s", xs::sincos(x).first);
    C1("sincos_c", xs::sincos(x).second);
    C1("sinh", xs::sinh(x));
    C1("cosh", xs::cosh(x));
    C1("tan", xs::tan(x));
    C1("tanh", xs::tanh(x));
    // pow(z, real y): y from the real lanes of in[1]
    regc<T>("pow_real", [](const xsv_args* a) { stc<T>(a->out[0], xs::pow(ldc<T>(a->in[0]), ld<T>(a->in[1]))); });
    // functions outside the property's accuracy claim, exercised for lane independence / termination only
    C1("asin", xs::asin(x));
    C1("acos", xs::acos(x));
    C1("atan", xs::atan(x));
    C1("asinh", xs::asinh(x));
    C1("acosh", xs::acosh(x));
    C1("atanh", xs::atanh(x));
    C1("log1p", xs::log1p(x));
    // comparisons: result bytes in out[0]
    regc<T>("eq", [](const xsv_args* a) { BB<T> m = ldc<T>(a->in[0]) == ldc<T>(a->in[1]); unsigned char* o = (unsigned char*)a->out[0]; for (size_t i = 0; i < B<T>::size; ++i) o[i] = m.get(i) ? 1 : 0; });
    regc<T>("ne", [](const xsv_args* a) { BB<T> m = ldc<T>(a->in[0]) != ldc<T>(a->in[1]); unsigned char* o = (unsigned char*)a->out[0]; for (size_t i = 0; i < B<T>::size; ++i) o[i] = m.get(i) ? 1 : 0; });
}
static void xsv_fill()
{
    fill_cplx<float>();
    fill_cplx<double>();
}
XSV_DEFINE_TABLE
