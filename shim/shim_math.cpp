// Elementary-function family (C10-C14): one public xsimd call per entry; loop-tick control for C14.
#include "shim_common.hpp"

XSV_EXPORT void xsv_tick_ctl(int cmd, long* v)
{
#ifdef XSIMD_VERIF_HOOKS
    auto& s = ::xsimd_verif::loops();
    switch (cmd)
    {
    case 0: s.ticks = 0; break;
    case 1: *v = s.ticks; break;
    case 2: s.limit = *v; break;
    case 3: s.overflow = reinterpret_cast<void (*)()>(*v); break;
    default: break;
    }
#else
    (void)cmd;
    if (v)
        *v = -1;
#endif
}

template <class T>
static void fill_math()
{
    OP1("exp", xs::exp(x));
    OP1("exp2", xs::exp2(x));
    OP1("exp10", xs::exp10(x));
    OP1("expm1", xs::expm1(x));
    OP1("log", xs::log(x));
    OP1("log2", xs::log2(x));
    OP1("log10", xs::log10(x));
    OP1("log1p", xs::log1p(x));
    OP1("sin", xs::sin(x));
    OP1("cos", xs::cos(x));
    OP1("tan", xs::tan(x));
    OP1("sincos_s", xs::sincos(x).first);
    OP1("sincos_c", xs::sincos(x).second);
    OP1("asin", xs::asin(x));
    OP1("acos", xs::acos(x));
    OP1("atan", xs::atan(x));
    OP1("sinh", xs::sinh(x));
    OP1("cosh", xs::cosh(x));
    OP1("tanh", xs::tanh(x));
    OP1("asinh", xs::asinh(x));
    OP1("acosh", xs::acosh(x));
    OP1("atanh", xs::atanh(x));
    OP1("cbrt", xs::cbrt(x));
    OP1("erf", xs::erf(x));
    OP1("erfc", xs::erfc(x));
    OP1("tgamma", xs::tgamma(x));
    OP1("lgamma", xs::lgamma(x));
    OP1("sqrt", xs::sqrt(x));
    OP2("pow", xs::pow(x, y));
    OP2("atan2", xs::atan2(x, y));
    OP2("hypot", xs::hypot(x, y));
    // identities of C12
    OP1("fabs", xs::fabs(x));
    OP1("abs", xs::abs(x));
    OP1("rint", xs::rint(x));
    OP1("nearbyint", xs::nearbyint(x));
    // other public element-wise functions, exercised for termination / lane independence only
    OP2("fmod", xs::fmod(x, y));
    OP2("remainder", xs::remainder(x, y));
    OP2("fdim", xs::fdim(x, y));
    OP1("rsqrt", xs::rsqrt(x));
    OP1("reciprocal", xs::reciprocal(x));
    OP1K("ipow", xs::pow(x, k));
    // scalar overloads (C17: scalar and batch agree within the accuracy bound): lane 0 only
#define SC1(NAME, EXPR) reg<T>(NAME, [](const xsv_args* a) { T x; std::memcpy(&x, a->in[0], sizeof x); T r = (T)(EXPR); std::memcpy(a->out[0], &r, sizeof r); })
    SC1("s_exp", xs::exp(x));
    SC1("s_log", xs::log(x));
    SC1("s_sin", xs::sin(x));
    SC1("s_cos", xs::cos(x));
    SC1("s_tan", xs::tan(x));
    SC1("s_atan", xs::atan(x));
    SC1("s_tanh", xs::tanh(x));
    SC1("s_cbrt", xs::cbrt(x));
    SC1("s_erf", xs::erf(x));
    SC1("s_exp2", xs::exp2(x));
    SC1("s_exp10", xs::exp10(x));
    SC1("s_log2", xs::log2(x));
    SC1("s_tgamma", xs::tgamma(x));
    SC1("s_lgamma", xs::lgamma(x));
}
static void xsv_fill()
{
    fill_math<float>();
    fill_math<double>();
}
XSV_DEFINE_TABLE
