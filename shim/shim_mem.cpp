// Memory family (C04, and the converting load_as/store_as part of C06).
// in[0]: for loads the raw source pointer chosen by the driver (inside its guard-page arena);
//        for stores the register image.  out[0]: for loads the register image, for stores the raw
//        destination pointer.  Register images are moved with memcpy only (no xsimd load/store), so this
//        family does not trust what it checks.
#include "shim_common.hpp"

#include <utility>

template <class T>
inline B<T> from_image(const void* p)
{
    // a batch is a trivially copyable wrapper around one register: its object representation is the register image
    B<T> r;
    static_assert(sizeof(B<T>) >= B<T>::size * sizeof(T), "register image");
    std::memcpy(static_cast<void*>(&r), p, B<T>::size * sizeof(T));
    return r;
}
template <class T>
inline void to_image(void* p, B<T> const& r)
{
    std::memcpy(p, static_cast<const void*>(&r), B<T>::size * sizeof(T));
}

template <class T, size_t... I>
static B<T> ctor_list(const T* v, std::index_sequence<I...>)
{
    return B<T>(v[I]...);
}
template <class T, size_t... I>
static BB<T> ctor_list_bool(const unsigned char* v, std::index_sequence<I...>)
{
    return BB<T>((v[I] != 0)...);
}

// insert<I>: one entry per compile-time index, selected by imm[0]
template <class T, size_t N>
static void f_insert_img(const xsv_args* a)
{
    T v;
    std::memcpy(&v, a->in[1], sizeof v);
    to_image<T>(a->out[0], xs::insert(from_image<T>(a->in[0]), v, xs::index<N>()));
}
template <class T, size_t... I>
static const xsv_fn* insert_table(std::index_sequence<I...>)
{
    static const xsv_fn tab[] = { &f_insert_img<T, I>... };
    return tab;
}

template <class T>
static void fill_mem()
{
    using I = xs::as_integer_t<T>;
    using U = xs::as_unsigned_integer_t<T>;
    constexpr size_t n = B<T>::size;
    reg<T>("alignment", [](const xsv_args* a) { uint64_t v = A::alignment(); std::memcpy(a->out[0], &v, 8); });
    reg<T>("load_u", [](const xsv_args* a) { to_image<T>(a->out[0], B<T>::load_unaligned(reinterpret_cast<const T*>(a->in[0]))); });
    reg<T>("load_a", [](const xsv_args* a) { to_image<T>(a->out[0], B<T>::load_aligned(reinterpret_cast<const T*>(a->in[0]))); });
    reg<T>("load_tag_u", [](const xsv_args* a) { to_image<T>(a->out[0], B<T>::load(reinterpret_cast<const T*>(a->in[0]), xs::unaligned_mode {})); });
    reg<T>("load_tag_a", [](const xsv_args* a) { to_image<T>(a->out[0], B<T>::load(reinterpret_cast<const T*>(a->in[0]), xs::aligned_mode {})); });
    reg<T>("load_free_u", [](const xsv_args* a) { to_image<T>(a->out[0], xs::load_unaligned<A>(reinterpret_cast<const T*>(a->in[0]))); });
    reg<T>("load_free_a", [](const xsv_args* a) { to_image<T>(a->out[0], xs::load_aligned<A>(reinterpret_cast<const T*>(a->in[0]))); });
    reg<T>("store_u", [](const xsv_args* a) { from_image<T>(a->in[0]).store_unaligned(reinterpret_cast<T*>(a->out[0])); });
    reg<T>("store_a", [](const xsv_args* a) { from_image<T>(a->in[0]).store_aligned(reinterpret_cast<T*>(a->out[0])); });
    reg<T>("store_tag_u", [](const xsv_args* a) { from_image<T>(a->in[0]).store(reinterpret_cast<T*>(a->out[0]), xs::unaligned_mode {}); });
    reg<T>("store_tag_a", [](const xsv_args* a) { from_image<T>(a->in[0]).store(reinterpret_cast<T*>(a->out[0]), xs::aligned_mode {}); });
    reg<T>("store_free_u", [](const xsv_args* a) { xs::store_unaligned(reinterpret_cast<T*>(a->out[0]), from_image<T>(a->in[0])); });
    reg<T>("store_free_a", [](const xsv_args* a) { xs::store_aligned(reinterpret_cast<T*>(a->out[0]), from_image<T>(a->in[0])); });
    // batch_bool <-> bool[]: in/out images are the comparison x != 0 of a register image / bool bytes
    reg<T>("bool_load_u", [](const xsv_args* a) { BB<T> m = BB<T>::load_unaligned(reinterpret_cast<const bool*>(a->in[0])); unsigned char* o = (unsigned char*)a->out[0]; for (size_t i = 0; i < n; ++i) o[i] = m.get(i) ? 1 : 0; uint64_t mk = m.mask(); std::memcpy(o + 64, &mk, 8); });
    reg<T>("bool_load_a", [](const xsv_args* a) { BB<T> m = BB<T>::load_aligned(reinterpret_cast<const bool*>(a->in[0])); unsigned char* o = (unsigned char*)a->out[0]; for (size_t i = 0; i < n; ++i) o[i] = m.get(i) ? 1 : 0; uint64_t mk = m.mask(); std::memcpy(o + 64, &mk, 8); });
    reg<T>("bool_store_u", [](const xsv_args* a) { uint64_t mk; std::memcpy(&mk, a->in[0], 8); BB<T>::from_mask(mk).store_unaligned(reinterpret_cast<bool*>(a->out[0])); });
    reg<T>("bool_store_a", [](const xsv_args* a) { uint64_t mk; std::memcpy(&mk, a->in[0], 8); BB<T>::from_mask(mk).store_aligned(reinterpret_cast<bool*>(a->out[0])); });
    // gather / scatter: in[0] = base pointer (gather) or register image (scatter); in[1] = index image; out[0] = image / base pointer
    reg<T>("gather_i", [](const xsv_args* a) { B<I> idx; std::memcpy(static_cast<void*>(&idx), a->in[1], n * sizeof(I)); to_image<T>(a->out[0], B<T>::gather(reinterpret_cast<const T*>(a->in[0]), idx)); });
    reg<T>("gather_u", [](const xsv_args* a) { B<U> idx; std::memcpy(static_cast<void*>(&idx), a->in[1], n * sizeof(U)); to_image<T>(a->out[0], B<T>::gather(reinterpret_cast<const T*>(a->in[0]), idx)); });
    reg<T>("scatter_i", [](const xsv_args* a) { B<I> idx; std::memcpy(static_cast<void*>(&idx), a->in[1], n * sizeof(I)); from_image<T>(a->in[0]).scatter(reinterpret_cast<T*>(a->out[0]), idx); });
    reg<T>("scatter_u", [](const xsv_args* a) { B<U> idx; std::memcpy(static_cast<void*>(&idx), a->in[1], n * sizeof(U)); from_image<T>(a->in[0]).scatter(reinterpret_cast<T*>(a->out[0]), idx); });
    // converting gather / scatter (memory element type differs from the lane type; a static_cast per element): the pairs with
    // a dedicated kernel somewhere (float, int32 <- double on avx2) and their widening counterparts
    if constexpr (std::is_same<T, float>::value || std::is_same<T, int32_t>::value)
    {
        reg<T>("gather_as_f64_i", [](const xsv_args* a) { B<I> idx; std::memcpy(static_cast<void*>(&idx), a->in[1], n * sizeof(I)); to_image<T>(a->out[0], B<T>::gather(reinterpret_cast<const double*>(a->in[0]), idx)); });
        reg<T>("scatter_as_f64_i", [](const xsv_args* a) { B<I> idx; std::memcpy(static_cast<void*>(&idx), a->in[1], n * sizeof(I)); from_image<T>(a->in[0]).scatter(reinterpret_cast<double*>(a->out[0]), idx); });
    }
    if constexpr (std::is_same<T, double>::value || std::is_same<T, int64_t>::value)
    {
        reg<T>("gather_as_f32_i", [](const xsv_args* a) { B<I> idx; std::memcpy(static_cast<void*>(&idx), a->in[1], n * sizeof(I)); to_image<T>(a->out[0], B<T>::gather(reinterpret_cast<const float*>(a->in[0]), idx)); });
        reg<T>("gather_as_i32_i", [](const xsv_args* a) { B<I> idx; std::memcpy(static_cast<void*>(&idx), a->in[1], n * sizeof(I)); to_image<T>(a->out[0], B<T>::gather(reinterpret_cast<const int32_t*>(a->in[0]), idx)); });
        reg<T>("scatter_as_f32_i", [](const xsv_args* a) { B<I> idx; std::memcpy(static_cast<void*>(&idx), a->in[1], n * sizeof(I)); from_image<T>(a->in[0]).scatter(reinterpret_cast<float*>(a->out[0]), idx); });
    }
    // broadcast and the element-list constructor
    reg<T>("broadcast", [](const xsv_args* a) { T v; std::memcpy(&v, a->in[0], sizeof v); to_image<T>(a->out[0], B<T>(v)); });
    reg<T>("broadcast_fn", [](const xsv_args* a) { T v; std::memcpy(&v, a->in[0], sizeof v); to_image<T>(a->out[0], xs::broadcast<T, A>(v)); });
    reg<T>("ctor_list", [](const xsv_args* a) { T v[n]; std::memcpy(v, a->in[0], sizeof v); to_image<T>(a->out[0], ctor_list<T>(v, std::make_index_sequence<n>())); });
    reg<T>("ctor_list_bool", [](const xsv_args* a) { BB<T> m = ctor_list_bool<T>((const unsigned char*)a->in[0], std::make_index_sequence<n>()); unsigned char* o = (unsigned char*)a->out[0]; for (size_t i = 0; i < n; ++i) o[i] = m.get(i) ? 1 : 0; uint64_t mk = m.mask(); std::memcpy(o + 64, &mk, 8); });
    reg<T>("get", [](const xsv_args* a) { B<T> x = from_image<T>(a->in[0]); T v = x.get((size_t)a->imm[0]); std::memcpy(a->out[0], &v, sizeof v); });
    if constexpr (xsv_cap<CAP_insert, T>::value)
    {
        static const xsv_fn* tab = insert_table<T>(std::make_index_sequence<n>());
        reg<T>("insert", [](const xsv_args* a) { tab[(size_t)a->imm[0]](a); });
    }
}

template <class T>
static void fill_cplx()
{
    using C = std::complex<T>;
    using BC = xs::batch<C, A>;
    constexpr size_t n = BC::size;
    // register image of a complex batch: real lanes followed by imaginary lanes
    auto put = [](void* o, BC const& z) { to_image<T>(o, z.real()); to_image<T>((char*)o + n * sizeof(T), z.imag()); };
    (void)put;
#define CPUT(O, Z)                                         \
    {                                                      \
        BC zz = (Z);                                       \
        to_image<T>((O), zz.real());                       \
        to_image<T>((char*)(O) + n * sizeof(T), zz.imag()); \
    }
#define CGET(P) BC(from_image<T>(P), from_image<T>((const char*)(P) + n * sizeof(T)))
    xsv_registry().push_back(xsv_entry { "cload_u", tn<C>::name(), (uint16_t)n, (uint16_t)sizeof(C), [](const xsv_args* a) { CPUT(a->out[0], BC::load_unaligned(reinterpret_cast<const C*>(a->in[0]))) } });
    xsv_registry().push_back(xsv_entry { "cload_a", tn<C>::name(), (uint16_t)n, (uint16_t)sizeof(C), [](const xsv_args* a) { CPUT(a->out[0], BC::load_aligned(reinterpret_cast<const C*>(a->in[0]))) } });
    xsv_registry().push_back(xsv_entry { "cstore_u", tn<C>::name(), (uint16_t)n, (uint16_t)sizeof(C), [](const xsv_args* a) { CGET(a->in[0]).store_unaligned(reinterpret_cast<C*>(a->out[0])); } });
    xsv_registry().push_back(xsv_entry { "cstore_a", tn<C>::name(), (uint16_t)n, (uint16_t)sizeof(C), [](const xsv_args* a) { CGET(a->in[0]).store_aligned(reinterpret_cast<C*>(a->out[0])); } });
    // split form: in[0] real pointer, in[1] imaginary pointer
    xsv_registry().push_back(xsv_entry { "cload_split_u", tn<C>::name(), (uint16_t)n, (uint16_t)sizeof(C), [](const xsv_args* a) { CPUT(a->out[0], BC::load_unaligned(reinterpret_cast<const T*>(a->in[0]), reinterpret_cast<const T*>(a->in[1]))) } });
    xsv_registry().push_back(xsv_entry { "cstore_split_u", tn<C>::name(), (uint16_t)n, (uint16_t)sizeof(C), [](const xsv_args* a) { CGET(a->in[0]).store_unaligned(reinterpret_cast<T*>(a->out[0]), reinterpret_cast<T*>(a->out[1])); } });
    xsv_registry().push_back(xsv_entry { "cload_free_u", tn<C>::name(), (uint16_t)n, (uint16_t)sizeof(C), [](const xsv_args* a) { CPUT(a->out[0], (xs::load_as<C, A>(reinterpret_cast<const C*>(a->in[0]), xs::unaligned_mode {}))) } });
    xsv_registry().push_back(xsv_entry { "cstore_free_u", tn<C>::name(), (uint16_t)n, (uint16_t)sizeof(C), [](const xsv_args* a) { xs::store_as(reinterpret_cast<C*>(a->out[0]), CGET(a->in[0]), xs::unaligned_mode {}); } });
}

static void xsv_fill()
{
    fill_mem<int8_t>();
    fill_mem<uint8_t>();
    fill_mem<int16_t>();
    fill_mem<uint16_t>();
    fill_mem<int32_t>();
    fill_mem<uint32_t>();
    fill_mem<int64_t>();
    fill_mem<uint64_t>();
    fill_mem<float>();
    fill_mem<double>();
    fill_cplx<float>();
    fill_cplx<double>();
}
XSV_DEFINE_TABLE
