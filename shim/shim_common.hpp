// Common part of every shim translation unit.  Compiled once per (target, family) with
// -DXSV_ARCH=<arch tag> and that target's -m flags; see DESIGN.md 2.1/2.2.
#ifndef XSV_SHIM_COMMON_HPP
#define XSV_SHIM_COMMON_HPP

#include <xsimd/xsimd.hpp>

#include <complex>
#include <cstdint>
#include <cstring>
#include <vector>

#include "abi.h"

namespace xs = xsimd;
using A = XSV_ARCH;

template <class T>
struct tn;
#define XSV_TN(T, S)                                 \
    template <>                                      \
    struct tn<T>                                     \
    {                                                \
        static const char* name() { return S; }      \
    };
XSV_TN(int8_t, "i8")
XSV_TN(uint8_t, "u8")
XSV_TN(int16_t, "i16")
XSV_TN(uint16_t, "u16")
XSV_TN(int32_t, "i32")
XSV_TN(uint32_t, "u32")
XSV_TN(int64_t, "i64")
XSV_TN(uint64_t, "u64")
XSV_TN(float, "f32")
XSV_TN(double, "f64")
XSV_TN(std::complex<float>, "c32")
XSV_TN(std::complex<double>, "c64")

template <class T>
using B = xs::batch<T, A>;
template <class T>
using BB = xs::batch_bool<T, A>;

// register image <-> batch.  load_unaligned/store_unaligned are themselves checked against
// memcpy by the C04 shims.
template <class T>
inline B<T> ld(const void* p)
{
    return B<T>::load_unaligned(reinterpret_cast<const T*>(p));
}
template <class T>
inline void st(void* p, B<T> const& v)
{
    v.store_unaligned(reinterpret_cast<T*>(p));
}
// batch_bool -> bytes 0/1 in out0 ; out1 (if non-null) receives {mask(), get()-bits, count, all|any<<1|none<<2}
template <class T>
inline void stb(const xsv_args* a, BB<T> const& v)
{
    bool tmp[B<T>::size];
    v.store_unaligned(tmp);
    unsigned char* o = reinterpret_cast<unsigned char*>(a->out[0]);
    for (size_t i = 0; i < B<T>::size; ++i)
    {
        unsigned char c;
        std::memcpy(&c, &tmp[i], 1);
        o[i] = c;
    }
    if (a->out[1])
    {
        uint64_t* q = reinterpret_cast<uint64_t*>(a->out[1]);
        q[0] = v.mask();
        uint64_t g = 0;
        for (size_t i = 0; i < B<T>::size; ++i)
            g |= uint64_t(v.get(i) ? 1 : 0) << i;
        q[1] = g;
        q[2] = xs::count(v);
        q[3] = (xs::all(v) ? 1 : 0) | (xs::any(v) ? 2 : 0) | (xs::none(v) ? 4 : 0);
    }
}
// bytes (non-zero = true) -> batch_bool, through from_mask-free path: load from bool array
template <class T>
inline BB<T> ldb(const void* p)
{
    bool tmp[B<T>::size];
    const unsigned char* s = reinterpret_cast<const unsigned char*>(p);
    for (size_t i = 0; i < B<T>::size; ++i)
        tmp[i] = s[i] != 0;
    return BB<T>::load_unaligned(tmp);
}

static std::vector<xsv_entry>& xsv_registry()
{
    static std::vector<xsv_entry> r;
    return r;
}
template <class T>
inline void reg(const char* op, xsv_fn fn)
{
    xsv_registry().push_back(xsv_entry { op, tn<T>::name(), (uint16_t)B<T>::size, (uint16_t)sizeof(T), fn });
}

#define XSV_EXPORT extern "C" __attribute__((visibility("default")))

// Each shim defines: static void xsv_fill();  then expands XSV_DEFINE_TABLE
#define XSV_DEFINE_TABLE                                           \
    XSV_EXPORT const xsv_entry* xsv_table(size_t* n)               \
    {                                                              \
        static bool done = false;                                  \
        if (!done)                                                 \
        {                                                          \
            xsv_fill();                                            \
            done = true;                                           \
        }                                                          \
        *n = xsv_registry().size();                                \
        return xsv_registry().data();                              \
    }

// helper macros: T is the element type in scope
#define OP1(NAME, EXPR) \
    reg<T>(NAME, [](const xsv_args* a) { B<T> x = ld<T>(a->in[0]); (void)x; st<T>(a->out[0], (EXPR)); })
#define OP2(NAME, EXPR) \
    reg<T>(NAME, [](const xsv_args* a) { B<T> x = ld<T>(a->in[0]); B<T> y = ld<T>(a->in[1]); (void)x; (void)y; st<T>(a->out[0], (EXPR)); })
#define OP3(NAME, EXPR) \
    reg<T>(NAME, [](const xsv_args* a) { B<T> x = ld<T>(a->in[0]); B<T> y = ld<T>(a->in[1]); B<T> z = ld<T>(a->in[2]); (void)x; (void)y; (void)z; st<T>(a->out[0], (EXPR)); })
// unary with scalar immediate k = imm[0]
#define OP1K(NAME, EXPR) \
    reg<T>(NAME, [](const xsv_args* a) { B<T> x = ld<T>(a->in[0]); int k = (int)a->imm[0]; (void)k; st<T>(a->out[0], (EXPR)); })
// binary producing batch_bool
#define CMP2(NAME, EXPR) \
    reg<T>(NAME, [](const xsv_args* a) { B<T> x = ld<T>(a->in[0]); B<T> y = ld<T>(a->in[1]); (void)x; (void)y; stb<T>(a, (EXPR)); })
#define CMP1(NAME, EXPR) \
    reg<T>(NAME, [](const xsv_args* a) { B<T> x = ld<T>(a->in[0]); (void)x; stb<T>(a, (EXPR)); })
// x,y batches plus a mask m taken from in[2] (bytes)
#define OP2M(NAME, EXPR) \
    reg<T>(NAME, [](const xsv_args* a) { B<T> x = ld<T>(a->in[0]); B<T> y = ld<T>(a->in[1]); BB<T> m = ldb<T>(a->in[2]); (void)x; (void)y; (void)m; st<T>(a->out[0], (EXPR)); })

#endif
