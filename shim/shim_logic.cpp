// Logic family (C03): comparisons, batch_bool algebra, mask()/from_mask, select, bool round trips.
#include "shim_common.hpp"

// two mask inputs -> mask output
#define BB2(NAME, EXPR) \
    reg<T>(NAME, [](const xsv_args* a) { BB<T> p = ldb<T>(a->in[0]); BB<T> q = ldb<T>(a->in[1]); (void)p; (void)q; stb<T>(a, (EXPR)); })
#define BB1(NAME, EXPR) \
    reg<T>(NAME, [](const xsv_args* a) { BB<T> p = ldb<T>(a->in[0]); (void)p; stb<T>(a, (EXPR)); })

template <class T>
static uint64_t bytes_to_mask(const void* p)
{
    const unsigned char* s = reinterpret_cast<const unsigned char*>(p);
    uint64_t m = 0;
    for (size_t i = 0; i < B<T>::size; ++i)
        if (s[i])
            m |= uint64_t(1) << i;
    return m;
}

template <class T, class U>
static void fill_bbcast(const char* name)
{
    reg<T>(name, [](const xsv_args* a) { BB<T> p = ldb<T>(a->in[0]); BB<U> q = xs::batch_bool_cast<U>(p); 
        bool tmp[B<U>::size]; q.store_unaligned(tmp); unsigned char* o = (unsigned char*)a->out[0];
        for (size_t i = 0; i < B<U>::size; ++i) o[i] = tmp[i] ? 1 : 0;
        uint64_t* s = (uint64_t*)a->out[1]; s[0] = q.mask(); uint64_t g = 0; for (size_t i = 0; i < B<U>::size; ++i) g |= uint64_t(q.get(i) ? 1 : 0) << i; s[1] = g; s[2] = xs::count(q); s[3] = (xs::all(q) ? 1 : 0) | (xs::any(q) ? 2 : 0) | (xs::none(q) ? 4 : 0); });
}

template <class T>
static void fill_logic()
{
    CMP2("eq", xs::eq(x, y));
    CMP2("ne", xs::neq(x, y));
    CMP2("lt", xs::lt(x, y));
    CMP2("le", xs::le(x, y));
    CMP2("gt", xs::gt(x, y));
    CMP2("ge", xs::ge(x, y));
    CMP2("op_eq", x == y);
    CMP2("op_ne", x != y);
    CMP2("op_lt", x < y);
    CMP2("op_le", x <= y);
    CMP2("op_gt", x > y);
    CMP2("op_ge", x >= y);
    BB2("bb_and", p & q);
    BB2("bb_or", p | q);
    BB2("bb_xor", p ^ q);
    BB2("bb_land", p && q);
    BB2("bb_lor", p || q);
    BB2("bb_eq", p == q);
    BB2("bb_ne", p != q);
    BB2("bb_andnot", xs::bitwise_andnot(p, q));
    BB2("bb_fand", xs::bitwise_and(p, q));
    BB2("bb_for", xs::bitwise_or(p, q));
    BB2("bb_fxor", xs::bitwise_xor(p, q));
    BB2("bb_and_assign", (p &= q));
    BB2("bb_or_assign", (p |= q));
    BB2("bb_xor_assign", (p ^= q));
    BB1("bb_not", ~p);
    BB1("bb_lnot", !p);
    BB1("bb_fnot", xs::bitwise_not(p));
    BB1("bb_identity", p);
    // from_mask(m): the integer mask is rebuilt from the input bytes
    reg<T>("from_mask", [](const xsv_args* a) { stb<T>(a, BB<T>::from_mask(bytes_to_mask<T>(a->in[0]))); });
    // aligned bool array round trip
    reg<T>("bb_aligned_rt", [](const xsv_args* a) {
        alignas(64) bool tmp[B<T>::size]; alignas(64) bool tmp2[B<T>::size];
        const unsigned char* s = (const unsigned char*)a->in[0];
        for (size_t i = 0; i < B<T>::size; ++i) tmp[i] = s[i] != 0;
        BB<T> p = BB<T>::load_aligned(tmp); p.store_aligned(tmp2);
        BB<T> q = BB<T>::load_unaligned(tmp2);
        stb<T>(a, q); });
    // variadic bool constructor of batch_bool is covered in C04 (constructor order); broadcast ctor here
    // lane l of the output is lane l of batch_bool(s[l]): every lane of the broadcast constructor sees both truth values
    reg<T>("bb_broadcast", [](const xsv_args* a) {
        const unsigned char* s = (const unsigned char*)a->in[0];
        unsigned char* o = (unsigned char*)a->out[0];
        for (size_t l = 0; l < B<T>::size; ++l)
        {
            bool tmp[B<T>::size];
            BB<T>(s[l] != 0).store_unaligned(tmp);
            unsigned char c;
            std::memcpy(&c, &tmp[l], 1);
            o[l] = c;
        }
        if (a->out[1])
        {
            unsigned char img[B<T>::size];
            std::memcpy(img, o, sizeof img);
            stb<T>(a, ldb<T>(img)); // the read-outs (mask, get, count, all/any/none) of a batch_bool holding these lanes
        }
    });
    // batch<T>(batch_bool) -> 0/1
    reg<T>("bb_to_batch", [](const xsv_args* a) { BB<T> p = ldb<T>(a->in[0]); st<T>(a->out[0], B<T>(p)); });
    // select(mask, x, y): in0 = mask bytes, in1 = x, in2 = y
    reg<T>("select", [](const xsv_args* a) { BB<T> m = ldb<T>(a->in[0]); B<T> x = ld<T>(a->in[1]); B<T> y = ld<T>(a->in[2]); st<T>(a->out[0], xs::select(m, x, y)); });
    // batch_bool_cast to the same-width integer / floating / unsigned type and back
    fill_bbcast<T, xs::as_integer_t<T>>("bbcast_int");
    fill_bbcast<T, xs::as_unsigned_integer_t<T>>("bbcast_uint");
}
template <class T, class F>
static void fill_logic_float_casts()
{
    fill_bbcast<T, F>("bbcast_float");
}

static void xsv_fill()
{
    fill_logic<int8_t>();
    fill_logic<uint8_t>();
    fill_logic<int16_t>();
    fill_logic<uint16_t>();
    fill_logic<int32_t>();
    fill_logic<uint32_t>();
    fill_logic<int64_t>();
    fill_logic<uint64_t>();
    fill_logic<float>();
    fill_logic<double>();
    fill_logic_float_casts<int32_t, float>();
    fill_logic_float_casts<uint32_t, float>();
    fill_logic_float_casts<float, float>();
    fill_logic_float_casts<int64_t, double>();
    fill_logic_float_casts<uint64_t, double>();
    fill_logic_float_casts<double, double>();
}
XSV_DEFINE_TABLE
