// Scalar family (C17): the scalar overloads xsimd provides for generic code and loop remainders,
// exported under the same operation names as the batch shims, with lanes = 1.  A scalar remainder
// loop stores its result into an array of T, hence the conversion to T on store.
#include "shim_common.hpp"

template <class T>
inline T lds(const void* p)
{
    T v;
    std::memcpy(&v, p, sizeof v);
    return v;
}
template <class T, class V>
inline void sts(void* p, V v)
{
    T t = (T)v;
    std::memcpy(p, &t, sizeof t);
}
template <class T>
inline void regs(const char* op, xsv_fn fn)
{
    xsv_registry().push_back(xsv_entry { op, tn<T>::name(), 1, (uint16_t)sizeof(T), fn });
}
inline void stbool(const xsv_args* a, bool v)
{
    unsigned char c = v ? 1 : 0;
    std::memcpy(a->out[0], &c, 1);
    if (a->out[1])
    {
        uint64_t q[4] = { (uint64_t)c, (uint64_t)c, (uint64_t)c, (uint64_t)((v ? 1 : 0) | (v ? 2 : 0) | (v ? 0 : 4)) };
        std::memcpy(a->out[1], q, sizeof q);
    }
}
inline bool ldbool(const void* p) { return *reinterpret_cast<const unsigned char*>(p) != 0; }

#define S1(NAME, EXPR) regs<T>(NAME, [](const xsv_args* a) { T x = lds<T>(a->in[0]); (void)x; sts<T>(a->out[0], (EXPR)); })
#define S2(NAME, EXPR) regs<T>(NAME, [](const xsv_args* a) { T x = lds<T>(a->in[0]); T y = lds<T>(a->in[1]); (void)x; (void)y; sts<T>(a->out[0], (EXPR)); })
#define S3(NAME, EXPR) regs<T>(NAME, [](const xsv_args* a) { T x = lds<T>(a->in[0]); T y = lds<T>(a->in[1]); T z = lds<T>(a->in[2]); (void)z; sts<T>(a->out[0], (EXPR)); })
#define S1K(NAME, EXPR) regs<T>(NAME, [](const xsv_args* a) { T x = lds<T>(a->in[0]); int k = (int)a->imm[0]; (void)k; sts<T>(a->out[0], (EXPR)); })
#define SC2(NAME, EXPR) regs<T>(NAME, [](const xsv_args* a) { T x = lds<T>(a->in[0]); T y = lds<T>(a->in[1]); stbool(a, (EXPR)); })
#define SC1(NAME, EXPR) regs<T>(NAME, [](const xsv_args* a) { T x = lds<T>(a->in[0]); stbool(a, (EXPR)); })

template <class T>
static void fill_common()
{
    S2("add", xs::add(x, y));
    S2("sub", xs::sub(x, y));
    S2("mul", xs::mul(x, y));
    S2("div", xs::div(x, y));
    S1("neg", xs::neg(x));
    S1("abs", xs::abs(x));
    S2("min", xs::min(x, y));
    S2("max", xs::max(x, y));
    S3("fma", xs::fma(x, y, z));
    S3("fms", xs::fms(x, y, z));
    S3("fnma", xs::fnma(x, y, z));
    S3("fnms", xs::fnms(x, y, z));
    S1("incr", xs::incr(x));
    S1("decr", xs::decr(x));
    regs<T>("incr_if", [](const xsv_args* a) { T x = lds<T>(a->in[0]); sts<T>(a->out[0], xs::incr_if(x, ldbool(a->in[2]))); });
    regs<T>("decr_if", [](const xsv_args* a) { T x = lds<T>(a->in[0]); sts<T>(a->out[0], xs::decr_if(x, ldbool(a->in[2]))); });
    S2("and", xs::bitwise_and(x, y));
    S2("or", xs::bitwise_or(x, y));
    S2("xor", xs::bitwise_xor(x, y));
    S2("andnot", xs::bitwise_andnot(x, y));
    S1("not", xs::bitwise_not(x));
    SC2("eq", xs::eq(x, y));
    SC2("ne", xs::neq(x, y));
    SC2("lt", xs::lt(x, y));
    SC2("le", xs::le(x, y));
    SC2("gt", xs::gt(x, y));
    SC2("ge", xs::ge(x, y));
    regs<T>("select", [](const xsv_args* a) { T x = lds<T>(a->in[1]); T y = lds<T>(a->in[2]); sts<T>(a->out[0], xs::select(ldbool(a->in[0]), x, y)); });
    // clip(x, lo, hi) with lo <= hi: operands 1 and 2 are ordered by the shim (the precondition of the overload)
    regs<T>("clip", [](const xsv_args* a) { T x = lds<T>(a->in[0]); T lo = lds<T>(a->in[1]); T hi = lds<T>(a->in[2]);
        if (lo != lo || hi != hi || x != x) { sts<T>(a->out[0], x); return; }
        if (hi < lo) { T t = lo; lo = hi; hi = t; }
        sts<T>(a->out[0], xs::clip(x, lo, hi)); });
    S1K("ipow", xs::pow(x, k));
}
template <class T>
static void fill_sint()
{
    fill_common<T>();
    S2("mod", xs::mod(x, y));
    S2("sadd", xs::sadd(x, y));
    S2("ssub", xs::ssub(x, y));
    S2("avg", xs::avg(x, y));
    S2("avgr", xs::avgr(x, y));
    S1K("shl_s", xs::bitwise_lshift(x, k));
    S1K("shr_s", xs::bitwise_rshift(x, k));
    S2("shl_v", xs::bitwise_lshift(x, y));
    S2("shr_v", xs::bitwise_rshift(x, y));
    S1K("rotl_s", xs::rotl(x, k));
    S1K("rotr_s", xs::rotr(x, k));
    S2("rotl_v", xs::rotl(x, y));
    S2("rotr_v", xs::rotr(x, y));
}
template <class T>
static void fill_sfp()
{
    using I = xs::as_integer_t<T>;
    fill_common<T>();
    SC1("is_flint", xs::is_flint(x));
    SC1("is_even", xs::is_even(x));
    SC1("is_odd", xs::is_odd(x));
    regs<T>("nearbyint_as_int", [](const xsv_args* a) { T x = lds<T>(a->in[0]); sts<I>(a->out[0], xs::nearbyint_as_int(x)); });
}
template <class From, class To>
static void fill_sbitcast(const char* name)
{
    regs<From>(name, [](const xsv_args* a) { From x = lds<From>(a->in[0]); sts<To>(a->out[0], xs::bitwise_cast<To>(x)); });
}

static void xsv_fill()
{
    fill_sint<int8_t>();
    fill_sint<uint8_t>();
    fill_sint<int16_t>();
    fill_sint<uint16_t>();
    fill_sint<int32_t>();
    fill_sint<uint32_t>();
    fill_sint<int64_t>();
    fill_sint<uint64_t>();
    fill_sfp<float>();
    fill_sfp<double>();
    fill_sbitcast<int8_t, uint8_t>("bitcast_u8"); fill_sbitcast<uint8_t, int8_t>("bitcast_i8");
    fill_sbitcast<int16_t, uint16_t>("bitcast_u16"); fill_sbitcast<uint16_t, int16_t>("bitcast_i16");
    fill_sbitcast<int32_t, uint32_t>("bitcast_u32"); fill_sbitcast<int32_t, float>("bitcast_f32"); fill_sbitcast<uint32_t, int32_t>("bitcast_i32"); fill_sbitcast<uint32_t, float>("bitcast_f32");
    fill_sbitcast<float, int32_t>("bitcast_i32"); fill_sbitcast<float, uint32_t>("bitcast_u32");
    fill_sbitcast<int64_t, uint64_t>("bitcast_u64"); fill_sbitcast<int64_t, double>("bitcast_f64"); fill_sbitcast<uint64_t, int64_t>("bitcast_i64"); fill_sbitcast<uint64_t, double>("bitcast_f64");
    fill_sbitcast<double, int64_t>("bitcast_i64"); fill_sbitcast<double, uint64_t>("bitcast_u64");
}
XSV_DEFINE_TABLE
