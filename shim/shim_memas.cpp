// Converting loads/stores (load_as / store_as for every (From, To) pair): the memory part of C06.
// in[0]: for loads the raw source pointer chosen by the driver (inside its guard-page arena);
//        for stores the register image.  out[0]: for loads the register image, for stores the raw
//        destination pointer.  Register images are moved with memcpy only (no xsimd load/store), so this
//        family does not trust what it checks.
#include "shim_common.hpp"

#include <utility>

template <class T>
inline B<T> from_image(const void* p)
{
    // a batch is a trivially copyable wrapper around one register: its object representation is the register image
    B<T> r;
    static_assert(sizeof(B<T>) >= B<T>::size * sizeof(T), "register image");
    std::memcpy(static_cast<void*>(&r), p, B<T>::size * sizeof(T));
    return r;
}
template <class T>
inline void to_image(void* p, B<T> const& r)
{
    std::memcpy(p, static_cast<const void*>(&r), B<T>::size * sizeof(T));
}

template <class T, size_t... I>
static B<T> ctor_list(const T* v, std::index_sequence<I...>)
{
    return B<T>(v[I]...);
}
template <class T, size_t... I>
static BB<T> ctor_list_bool(const unsigned char* v, std::index_sequence<I...>)
{
    return BB<T>((v[I] != 0)...);
}

template <class To, class From>
static void fill_as(const char* lu, const char* la, const char* su, const char* sa)
{
    // load_as<To>(From const*): register of To lanes, reads size*sizeof(From) bytes
    reg<To>(lu, [](const xsv_args* a) { to_image<To>(a->out[0], xs::load_as<To, A>(reinterpret_cast<const From*>(a->in[0]), xs::unaligned_mode {})); });
    reg<To>(la, [](const xsv_args* a) { to_image<To>(a->out[0], xs::load_as<To, A>(reinterpret_cast<const From*>(a->in[0]), xs::aligned_mode {})); });
    // store_as(From* dst, batch<To>): memory of From elements (roles swapped: here "To" is the register type)
    reg<To>(su, [](const xsv_args* a) { xs::store_as(reinterpret_cast<From*>(a->out[0]), from_image<To>(a->in[0]), xs::unaligned_mode {}); });
    reg<To>(sa, [](const xsv_args* a) { xs::store_as(reinterpret_cast<From*>(a->out[0]), from_image<To>(a->in[0]), xs::aligned_mode {}); });
}
#define AS_ALL(To)                                                                                                                       \
    fill_as<To, int8_t>("load_as_i8_u", "load_as_i8_a", "store_as_i8_u", "store_as_i8_a");                                               \
    fill_as<To, uint8_t>("load_as_u8_u", "load_as_u8_a", "store_as_u8_u", "store_as_u8_a");                                              \
    fill_as<To, int16_t>("load_as_i16_u", "load_as_i16_a", "store_as_i16_u", "store_as_i16_a");                                          \
    fill_as<To, uint16_t>("load_as_u16_u", "load_as_u16_a", "store_as_u16_u", "store_as_u16_a");                                         \
    fill_as<To, int32_t>("load_as_i32_u", "load_as_i32_a", "store_as_i32_u", "store_as_i32_a");                                          \
    fill_as<To, uint32_t>("load_as_u32_u", "load_as_u32_a", "store_as_u32_u", "store_as_u32_a");                                         \
    fill_as<To, int64_t>("load_as_i64_u", "load_as_i64_a", "store_as_i64_u", "store_as_i64_a");                                          \
    fill_as<To, uint64_t>("load_as_u64_u", "load_as_u64_a", "store_as_u64_u", "store_as_u64_a");                                         \
    fill_as<To, float>("load_as_f32_u", "load_as_f32_a", "store_as_f32_u", "store_as_f32_a");                                            \
    fill_as<To, double>("load_as_f64_u", "load_as_f64_a", "store_as_f64_u", "store_as_f64_a");

template <class T>
static void fill_memas()
{
    reg<T>("alignment", [](const xsv_args* a) { uint64_t v = A::alignment(); std::memcpy(a->out[0], &v, 8); });
    AS_ALL(T)
}
static void xsv_fill()
{
    fill_memas<int8_t>();
    fill_memas<uint8_t>();
    fill_memas<int16_t>();
    fill_memas<uint16_t>();
    fill_memas<int32_t>();
    fill_memas<uint32_t>();
    fill_memas<int64_t>();
    fill_memas<uint64_t>();
    fill_memas<float>();
    fill_memas<double>();
}
XSV_DEFINE_TABLE
