// Data-movement family (C05): run-time index swizzle, zip, slide/rotate/insert for every compile-time count,
// extract_pair, transpose, compress/expand.  Combinations come from the frozen capability matrix (caps.json).
#include "shim_common.hpp"

#include <utility>

template <class T, size_t N>
static void f_slide_left(const xsv_args* a) { st<T>(a->out[0], xs::slide_left<N>(ld<T>(a->in[0]))); }
template <class T, size_t N>
static void f_slide_right(const xsv_args* a) { st<T>(a->out[0], xs::slide_right<N>(ld<T>(a->in[0]))); }
template <class T, size_t N>
static void f_rotate_left(const xsv_args* a) { st<T>(a->out[0], xs::rotate_left<N>(ld<T>(a->in[0]))); }
template <class T, size_t N>
static void f_rotate_right(const xsv_args* a) { st<T>(a->out[0], xs::rotate_right<N>(ld<T>(a->in[0]))); }
template <class T, size_t N>
static void f_insert(const xsv_args* a)
{
    T v;
    std::memcpy(&v, a->in[1], sizeof v);
    st<T>(a->out[0], xs::insert(ld<T>(a->in[0]), v, xs::index<N>()));
}

template <class T, template <class, size_t> class F, size_t... I>
static const xsv_fn* make_table(std::index_sequence<I...>)
{
    static const xsv_fn tab[] = { &F<T, I>::call... };
    return tab;
}
#define WRAP(NAME)                                                       \
    template <class T, size_t N>                                         \
    struct w_##NAME                                                      \
    {                                                                    \
        static void call(const xsv_args* a) { f_##NAME<T, N>(a); }       \
    };
WRAP(slide_left)
WRAP(slide_right)
WRAP(rotate_left)
WRAP(rotate_right)
WRAP(insert)

// imm[0] selects the compile-time count; imm[1] receives nothing.  The table pointer is kept per (T, op).
#define DISPATCH(NAME, COUNT)                                                                        \
    {                                                                                                \
        static const xsv_fn* tab = make_table<T, w_##NAME>(std::make_index_sequence<(COUNT)>());     \
        static const size_t cnt = (COUNT);                                                           \
        (void)cnt;                                                                                   \
        reg<T>(#NAME, [](const xsv_args* a) { tab[(size_t)a->imm[0]](a); });                         \
    }

template <class T>
static void fill_move()
{
    using U = xs::as_unsigned_integer_t<T>;
    constexpr size_t n = B<T>::size;
    constexpr size_t bytes = n * sizeof(T);
    if constexpr (xsv_cap<CAP_swizzle_dyn, T>::value)
        reg<T>("swizzle_dyn", [](const xsv_args* a) { st<T>(a->out[0], xs::swizzle(ld<T>(a->in[0]), ld<U>(a->in[1]))); });
    if constexpr (xsv_cap<CAP_zip_lo, T>::value)
        OP2("zip_lo", xs::zip_lo(x, y));
    if constexpr (xsv_cap<CAP_zip_hi, T>::value)
        OP2("zip_hi", xs::zip_hi(x, y));
    if constexpr (xsv_cap<CAP_slide_left, T>::value)
        DISPATCH(slide_left, bytes + 1)
    if constexpr (xsv_cap<CAP_slide_right, T>::value)
        DISPATCH(slide_right, bytes + 1)
    if constexpr (xsv_cap<CAP_rotate_left, T>::value)
        DISPATCH(rotate_left, n)
    if constexpr (xsv_cap<CAP_rotate_right, T>::value)
        DISPATCH(rotate_right, n)
    if constexpr (xsv_cap<CAP_insert, T>::value)
        DISPATCH(insert, n)
    if constexpr (xsv_cap<CAP_extract_pair, T>::value)
        reg<T>("extract_pair", [](const xsv_args* a) { st<T>(a->out[0], xs::extract_pair(ld<T>(a->in[0]), ld<T>(a->in[1]), (std::size_t)a->imm[0])); });
    if constexpr (xsv_cap<CAP_compress, T>::value)
        reg<T>("compress", [](const xsv_args* a) { st<T>(a->out[0], xs::compress(ld<T>(a->in[0]), ldb<T>(a->in[2]))); });
    if constexpr (xsv_cap<CAP_expand, T>::value)
        reg<T>("expand", [](const xsv_args* a) { st<T>(a->out[0], xs::expand(ld<T>(a->in[0]), ldb<T>(a->in[2]))); });
    if constexpr (xsv_cap<CAP_transpose, T>::value)
        reg<T>("transpose", [](const xsv_args* a) {
            constexpr size_t n = B<T>::size;
            B<T> m[n];
            for (size_t i = 0; i < n; ++i)
                m[i] = ld<T>(reinterpret_cast<const T*>(a->in[0]) + i * n);
            xs::transpose(m, m + n);
            for (size_t i = 0; i < n; ++i)
                st<T>(reinterpret_cast<T*>(a->out[0]) + i * n, m[i]);
        });
    // get(i) and the element-list constructor agree with insert<i> on lane numbering (C04 also checks these against memory)
    reg<T>("get", [](const xsv_args* a) { B<T> x = ld<T>(a->in[0]); T v = x.get((std::size_t)a->imm[0]); std::memcpy(a->out[0], &v, sizeof v); });
}

static void xsv_fill()
{
    fill_move<int8_t>();
    fill_move<uint8_t>();
    fill_move<int16_t>();
    fill_move<uint16_t>();
    fill_move<int32_t>();
    fill_move<uint32_t>();
    fill_move<int64_t>();
    fill_move<uint64_t>();
    fill_move<float>();
    fill_move<double>();
}
XSV_DEFINE_TABLE
