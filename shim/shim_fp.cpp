// Floating-point family: C02 (basic IEEE ops, predicates, frexp/ldexp/nextafter) and C08 (rounding).
#include "shim_common.hpp"

template <class T>
static void fill_fp()
{
    using I = xs::as_integer_t<T>;
    OP2("add", xs::add(x, y));
    OP2("sub", xs::sub(x, y));
    OP2("mul", xs::mul(x, y));
    OP2("div", xs::div(x, y));
    OP2("op_add", x + y);
    OP2("op_sub", x - y);
    OP2("op_mul", x * y);
    OP2("op_div", x / y);
    OP2("op_add_assign", (x += y));
    OP2("op_sub_assign", (x -= y));
    OP2("op_mul_assign", (x *= y));
    OP2("op_div_assign", (x /= y));
    OP1("sqrt", xs::sqrt(x));
    OP1("neg", xs::neg(x));
    OP1("op_neg", -x);
    OP1("abs", xs::abs(x));
    OP1("fabs", xs::fabs(x));
    OP2("copysign", xs::copysign(x, y));
    OP1("bitofsign", xs::bitofsign(x));
    OP2("and", xs::bitwise_and(x, y));
    OP2("or", xs::bitwise_or(x, y));
    OP2("xor", xs::bitwise_xor(x, y));
    OP2("andnot", xs::bitwise_andnot(x, y));
    OP1("not", xs::bitwise_not(x));
    OP2("op_and", x & y);
    OP2("op_or", x | y);
    OP2("op_xor", x ^ y);
    OP1("op_not", ~x);
    OP3("fma", xs::fma(x, y, z));
    OP3("fms", xs::fms(x, y, z));
    OP3("fnma", xs::fnma(x, y, z));
    OP3("fnms", xs::fnms(x, y, z));
    OP2("min", xs::min(x, y));
    OP2("max", xs::max(x, y));
    OP2("fmin", xs::fmin(x, y));
    OP2("fmax", xs::fmax(x, y));
    OP1("pos", xs::pos(x));
    OP1("op_pos", +x);
    CMP1("isnan", xs::isnan(x));
    CMP1("isinf", xs::isinf(x));
    CMP1("isfinite", xs::isfinite(x));
    CMP1("is_flint", xs::is_flint(x));
    CMP1("is_even", xs::is_even(x));
    CMP1("is_odd", xs::is_odd(x));
    OP1("sign", xs::sign(x));
    OP1("signnz", xs::signnz(x));
    reg<T>("frexp_m", [](const xsv_args* a) { B<T> x = ld<T>(a->in[0]); B<I> e; st<T>(a->out[0], xs::frexp(x, e)); });
    reg<T>("frexp_e", [](const xsv_args* a) { B<T> x = ld<T>(a->in[0]); B<I> e; B<T> m = xs::frexp(x, e); (void)m; st<I>(a->out[0], e); });
    reg<T>("ldexp", [](const xsv_args* a) { B<T> x = ld<T>(a->in[0]); B<I> e = ld<I>(a->in[1]); st<T>(a->out[0], xs::ldexp(x, e)); });
    OP2("nextafter", xs::nextafter(x, y));
    OP1K("ipow", xs::pow(x, k));
    // C08
    OP1("ceil", xs::ceil(x));
    OP1("floor", xs::floor(x));
    OP1("trunc", xs::trunc(x));
    OP1("round", xs::round(x));
    OP1("nearbyint", xs::nearbyint(x));
    OP1("rint", xs::rint(x));
    reg<T>("nearbyint_as_int", [](const xsv_args* a) { B<T> x = ld<T>(a->in[0]); st<I>(a->out[0], xs::nearbyint_as_int(x)); });
    reg<T>("to_int", [](const xsv_args* a) { B<T> x = ld<T>(a->in[0]); st<I>(a->out[0], xs::to_int(x)); });
}

static void xsv_fill()
{
    fill_fp<float>();
    fill_fp<double>();
}
XSV_DEFINE_TABLE
