// Reduction family (C09): reduce_add/max/min, generic reduce(f, x), haddp.
#include "shim_common.hpp"

template <class T>
inline void sts1(void* p, T v)
{
    std::memcpy(p, &v, sizeof v);
}
#define RED(NAME, EXPR) reg<T>(NAME, [](const xsv_args* a) { B<T> x = ld<T>(a->in[0]); sts1<T>(a->out[0], (T)(EXPR)); })

template <class T>
static void fill_red_common()
{
    RED("reduce_add", xs::reduce_add(x));
    RED("reduce_max", xs::reduce_max(x));
    RED("reduce_min", xs::reduce_min(x));
    if constexpr (xsv_cap<CAP_reduce_f, T>::value)
    {
        RED("reduce_fadd", xs::reduce([](B<T> const& p, B<T> const& q) { return p + q; }, x));
        RED("reduce_fmax", xs::reduce([](B<T> const& p, B<T> const& q) { return xs::max(p, q); }, x));
        RED("reduce_fmin", xs::reduce([](B<T> const& p, B<T> const& q) { return xs::min(p, q); }, x));
    }
}
template <class T>
static void fill_red_int()
{
    fill_red_common<T>();
    if constexpr (xsv_cap<CAP_reduce_f, T>::value)
    {
        RED("reduce_fand", xs::reduce([](B<T> const& p, B<T> const& q) { return p & q; }, x));
        RED("reduce_for", xs::reduce([](B<T> const& p, B<T> const& q) { return p | q; }, x));
        RED("reduce_fxor", xs::reduce([](B<T> const& p, B<T> const& q) { return p ^ q; }, x));
    }
}
template <class T>
static void fill_red_fp()
{
    fill_red_common<T>();
    // in[0]: size rows of size elements (row-major); out[0]: one register
    reg<T>("haddp", [](const xsv_args* a) {
        B<T> rows[B<T>::size];
        for (size_t i = 0; i < B<T>::size; ++i)
            rows[i] = ld<T>(reinterpret_cast<const T*>(a->in[0]) + i * B<T>::size);
        st<T>(a->out[0], xs::haddp(rows));
    });
}
static void xsv_fill()
{
    fill_red_int<int8_t>();
    fill_red_int<uint8_t>();
    fill_red_int<int16_t>();
    fill_red_int<uint16_t>();
    fill_red_int<int32_t>();
    fill_red_int<uint32_t>();
    fill_red_int<int64_t>();
    fill_red_int<uint64_t>();
    fill_red_fp<float>();
    fill_red_fp<double>();
}
XSV_DEFINE_TABLE
